"""Vectorised floating-point interval domain for abstract interpretation of expanded expression DAGs.

A value is, per lane (= per input box), a closed interval [lo, hi] of floats of the analysed
format, ordered by the IEEE total order restricted to non-NaN values (so -0 < +0 and the sign of a
zero endpoint is meaningful), plus a flag `nan` (the value may be NaN) and a flag `emp` (there is no
numeric value: the value is NaN or absent).  Every transfer function is an over-approximation of the
set of IEEE round-to-nearest results:

* +, -, *, /, sqrt are correctly rounded and monotone in each argument on sign-homogeneous pieces,
  so the image of a box is bounded by its images at the corners; corners are computed *in the
  analysed format by numpy* (IEEE arithmetic, including signed zeros, overflow to infinity and
  gradual underflow); the NaN cases (inf-inf, 0*inf, 0/0, inf/inf, sqrt of a negative) are decided
  from the intervals, not only from the corners;
* library functions (log, log1p, exp, atan2, ...) are not correctly rounded in any target, so their
  results are widened by LIBM_SLACK units in the last place; their domain errors, zeros, infinities
  and signs are exact;
* comparisons return three-valued booleans, `select` joins the branches that are possible.

Boxes degenerate to points evaluate to the exact result (up to the library-function slack), which is
what makes a reported violation a concrete input and not an artefact of the abstraction.
"""

from __future__ import annotations

import numpy as np

LIBM_SLACK = 4


class Unsupported(Exception):
    pass


class Fmt:
    def __init__(self, name):
        self.name = name
        self.ft = {"float32": np.float32, "float64": np.float64, "float16": np.float16}[name]
        self.bits = {"float32": 32, "float64": 64, "float16": 16}[name]
        self.it = {32: np.int32, 64: np.int64, 16: np.int16}[self.bits]
        self.ut = {32: np.uint32, 64: np.uint64, 16: np.uint16}[self.bits]
        fi = np.finfo(self.ft)
        self.largest = self.ft(fi.max)
        self.smallest = self.ft(fi.tiny)
        self.tiny = self.ft(fi.smallest_subnormal)
        self.eps = self.ft(fi.eps)
        self.p = fi.nmant + 1
        self.inf = self.ft(np.inf)
        self.zero = self.ft(0.0)
        self.nzero = self.ft(-0.0)
        self.one = self.ft(1.0)

    def named(self, name):
        t = {
            "largest": self.largest, "smallest": self.smallest, "eps": self.eps, "posinf": self.inf, "neginf": -self.inf,
            "pi": self.ft(np.pi), "smallest_subnormal": self.tiny,
        }
        if name not in t:
            raise Unsupported(f"named constant {name}")
        return t[name]

    # monotone bijection floats (without NaN) <-> integers, -0 -> -1, +0 -> 0
    def to_ord(self, v):
        b = np.asarray(v, dtype=self.ft).view(self.it).astype(np.int64)
        mask = np.int64((1 << (self.bits - 1)) - 1)
        return np.where(b >= 0, b, -(b & mask) - 1)

    def from_ord(self, o):
        o = np.asarray(o, dtype=np.int64)
        mag = np.where(o >= 0, o, -o - 1).astype(np.uint64)
        sign = np.where(o >= 0, np.uint64(0), np.uint64(1 << (self.bits - 1)))
        return (mag | sign).astype(self.ut).view(self.ft)

    @property
    def ord_inf(self):
        return int(self.to_ord(self.inf))


def tless(a, b):
    return (a < b) | ((a == b) & np.signbit(a) & ~np.signbit(b))


def tmin(a, b):
    return np.where(tless(b, a), b, a)


def tmax(a, b):
    return np.where(tless(a, b), b, a)


class IV:
    __slots__ = ("lo", "hi", "nan", "emp", "rel", "abe")

    def __init__(self, lo, hi, nan=False, emp=False, rel=None, abe=None):
        self.lo, self.hi = lo, hi
        self.nan = np.asarray(nan, dtype=bool)
        self.emp = np.asarray(emp, dtype=bool)
        # optional (ErrDomain): |computed - ideal| <= rel * |ideal| + abe, ideal = exact real evaluation of the same expression
        self.rel = rel
        self.abe = abe

    def has0(self):
        return ~self.emp & (self.lo <= 0) & (self.hi >= 0)

    def hasinf(self):
        return ~self.emp & (np.isinf(self.lo) | np.isinf(self.hi))


class BV:
    __slots__ = ("t", "f")

    def __init__(self, t, f):
        self.t = np.asarray(t, dtype=bool)
        self.f = np.asarray(f, dtype=bool)


def _hull(cands, valids, fmt):
    """Total-order hull of candidate arrays; a candidate counts where its validity mask holds and it is not NaN."""
    lo = hi = None
    have = None
    for c, v in zip(cands, valids):
        ok = np.asarray(v, dtype=bool) & ~np.isnan(c)
        if lo is None:
            lo, hi, have = np.where(ok, c, fmt.inf), np.where(ok, c, -fmt.inf), ok
        else:
            lo = np.where(ok & (~have | tless(c, lo)), c, lo)
            hi = np.where(ok & (~have | tless(hi, c)), c, hi)
            have = have | ok
    return lo, hi, ~have


class Domain:
    def __init__(self, fmt, slack=None):
        self.fmt = fmt
        self.slack = LIBM_SLACK if slack is None else slack  # units in the last place allowed to library functions

    # ------------------------------------------------------------------ constructors
    def const(self, v):
        v = self.fmt.ft(v)
        if np.isnan(v):
            return IV(v, v, True, True)
        return IV(v, v)

    def box(self, lo, hi):
        return IV(np.asarray(lo, dtype=self.fmt.ft), np.asarray(hi, dtype=self.fmt.ft))

    def bconst(self, b):
        return BV(bool(b), not bool(b))

    # ------------------------------------------------------------------ arithmetic
    def neg(self, A):
        return IV(-A.hi, -A.lo, A.nan, A.emp)

    def add(self, A, B):
        with np.errstate(all="ignore"):
            c = [A.lo + B.lo, A.lo + B.hi, A.hi + B.lo, A.hi + B.hi]
        emp0 = A.emp | B.emp
        lo, hi, e = _hull(c, [~emp0] * 4, self.fmt)
        nan = A.nan | B.nan | (~emp0 & ((np.isinf(A.lo) & (A.lo < 0) & np.isinf(B.hi) & (B.hi > 0)) | (np.isinf(A.hi) & (A.hi > 0) & np.isinf(B.lo) & (B.lo < 0))))
        return IV(lo, hi, nan, e | emp0)

    def sub(self, A, B):
        return self.add(A, self.neg(B))

    def mul(self, A, B):
        with np.errstate(all="ignore"):
            c = [A.lo * B.lo, A.lo * B.hi, A.hi * B.lo, A.hi * B.hi]
        emp0 = A.emp | B.emp
        lo, hi, e = _hull(c, [~emp0] * 4, self.fmt)
        nan = A.nan | B.nan | (A.has0() & B.hasinf()) | (B.has0() & A.hasinf())
        return IV(lo, hi, nan, e | emp0)

    def div(self, A, B):
        f = self.fmt
        emp0 = A.emp | B.emp
        cands, valids = [], []
        with np.errstate(all="ignore"):
            # negative part of the divisor: [B.lo, min(B.hi, -0)]
            vn = ~emp0 & np.signbit(B.lo)
            bn_hi = tmin(B.hi, f.nzero)
            for a in (A.lo, A.hi):
                for b in (B.lo, bn_hi):
                    cands.append(a / b)
                    valids.append(vn)
            vp = ~emp0 & ~np.signbit(B.hi)
            bp_lo = tmax(B.lo, f.zero)
            for a in (A.lo, A.hi):
                for b in (bp_lo, B.hi):
                    cands.append(a / b)
                    valids.append(vp)
        lo, hi, e = _hull(cands, valids, f)
        nan = A.nan | B.nan | (A.has0() & B.has0()) | (A.hasinf() & B.hasinf())
        return IV(lo, hi, nan, e | emp0)

    def sqrt(self, A):
        f = self.fmt
        neg = ~A.emp & (A.lo < 0)
        lo_ = np.where(neg, f.nzero, A.lo)
        with np.errstate(all="ignore"):
            lo, hi = np.sqrt(lo_), np.sqrt(np.where(A.hi < 0, f.zero, A.hi))
        return IV(lo, hi, A.nan | neg, A.emp | (A.hi < 0))

    def absolute(self, A):
        pos = ~np.signbit(A.lo)
        neg = np.signbit(A.hi)
        a, b = np.abs(A.lo), np.abs(A.hi)
        lo = np.where(pos, a, np.where(neg, b, self.fmt.zero))
        hi = np.where(pos, b, np.where(neg, a, np.maximum(a, b)))
        return IV(lo, hi, A.nan, A.emp)

    def maximum(self, A, B):
        return IV(tmax(A.lo, B.lo), tmax(A.hi, B.hi), A.nan | B.nan, A.emp | B.emp)

    def minimum(self, A, B):
        return IV(tmin(A.lo, B.lo), tmin(A.hi, B.hi), A.nan | B.nan, A.emp | B.emp)

    def sign(self, A):
        f = self.fmt
        lo = np.where(A.lo < 0, -f.one, np.where(A.lo == 0, f.nzero, f.one))
        hi = np.where(A.hi > 0, f.one, np.where(A.hi == 0, f.zero, -f.one))
        return IV(lo, hi, A.nan, A.emp)

    def copysign(self, A, B):
        m = self.absolute(A)
        n = self.neg(m)
        bneg = np.signbit(B.lo)
        bpos = ~np.signbit(B.hi)
        J = self.join(m, n)
        lo = np.where(bpos & ~bneg, m.lo, np.where(bneg & ~bpos, n.lo, J.lo))
        hi = np.where(bpos & ~bneg, m.hi, np.where(bneg & ~bpos, n.hi, J.hi))
        return IV(lo, hi, A.nan | B.nan, A.emp | B.emp)

    # ------------------------------------------------------------------ library functions
    def _widen(self, lo, hi, k=None):
        f = self.fmt
        for _ in range(self.slack if k is None else k):
            lo = np.where((lo == 0) | np.isinf(lo), lo, np.nextafter(lo, -f.inf))
            hi = np.where((hi == 0) | np.isinf(hi), hi, np.nextafter(hi, f.inf))
        return lo, hi

    def _mono(self, A, fn, dom_lo=None, dom_hi=None, strict_nan_below=True, decreasing=False):
        """Monotone library function with optional domain [dom_lo, dom_hi] (NaN outside)."""
        f = self.fmt
        nan = A.nan
        emp = A.emp
        lo_, hi_ = A.lo, A.hi
        if dom_lo is not None:
            below = ~A.emp & (A.lo < dom_lo)
            nan = nan | below
            emp = emp | (A.hi < dom_lo)
            lo_ = np.where(A.lo < dom_lo, f.ft(dom_lo) if dom_lo != 0 else f.nzero, A.lo)
            hi_ = np.where(A.hi < dom_lo, f.ft(dom_lo), A.hi)
        if dom_hi is not None:
            above = ~A.emp & (A.hi > dom_hi)
            nan = nan | above
            emp = emp | (A.lo > dom_hi)
            hi_ = np.where(hi_ > dom_hi, f.ft(dom_hi), hi_)
            lo_ = np.where(lo_ > dom_hi, f.ft(dom_hi), lo_)
        with np.errstate(all="ignore"):
            a, b = fn(lo_), fn(hi_)
        if decreasing:
            a, b = b, a
        a, b = self._widen(a, b)
        return IV(a, b, nan, emp)

    def log(self, A):
        return self._mono(A, np.log, dom_lo=0)

    def log2(self, A):
        return self._mono(A, np.log2, dom_lo=0)

    def log10(self, A):
        return self._mono(A, np.log10, dom_lo=0)

    def log1p(self, A):
        return self._mono(A, np.log1p, dom_lo=-1)

    def exp(self, A):
        return self._mono(A, np.exp)

    def expm1(self, A):
        return self._mono(A, np.expm1)

    def atan(self, A):
        return self._mono(A, np.arctan)

    def tanh(self, A):
        return self._mono(A, np.tanh)

    def sinh(self, A):
        return self._mono(A, np.sinh)

    def _periodic(self, A, fn, crit_offset):
        """sin / cos: endpoints plus the critical points k*pi + crit_offset inside the interval."""
        f = self.fmt
        nan = A.nan | A.hasinf()
        lo64 = np.where(np.isinf(A.lo), 0.0, A.lo.astype(np.float64))
        hi64 = np.where(np.isinf(A.hi), 0.0, A.hi.astype(np.float64))
        with np.errstate(all="ignore"):
            a, b = fn(np.where(np.isinf(A.lo), f.zero, A.lo)), fn(np.where(np.isinf(A.hi), f.zero, A.hi))
            k_lo = np.ceil((lo64 - crit_offset) / np.pi - 1e-9)
            k_hi = np.floor((hi64 - crit_offset) / np.pi + 1e-9)
        wide = A.hasinf() | (np.maximum(np.abs(lo64), np.abs(hi64)) > 2.0 ** 30)
        ncrit = k_hi - k_lo + 1
        has_crit = ncrit >= 1
        # value at a critical point is +1 when k is even (for sin with offset pi/2, cos with offset 0), else -1
        even_in = has_crit & ((ncrit >= 2) | (np.mod(k_lo, 2) == 0))
        odd_in = has_crit & ((ncrit >= 2) | (np.mod(k_lo, 2) != 0))
        lo = np.minimum(a, b)
        hi = np.maximum(a, b)
        lo, hi = self._widen(lo, hi)
        lo = np.where(wide | odd_in, -f.one, lo)
        hi = np.where(wide | even_in, f.one, hi)
        finite_part = ~A.emp & ~(np.isinf(A.lo) & np.isinf(A.hi) & (A.lo == A.hi))
        return IV(lo, hi, nan, ~finite_part)

    def sin(self, A):
        return self._periodic(A, np.sin, np.pi / 2)

    def cos(self, A):
        return self._periodic(A, np.cos, 0.0)

    def atan2(self, Y, X):
        f = self.fmt
        emp0 = Y.emp | X.emp
        pi = f.ft(np.pi)
        with np.errstate(all="ignore"):
            c = [np.arctan2(y, x) for y in (Y.lo, Y.hi) for x in (X.lo, X.hi)]
        lo, hi, e = _hull(c, [~emp0] * 4, f)
        lo, hi = self._widen(lo, hi)
        y_spans = np.signbit(Y.lo) & ~np.signbit(Y.hi)  # contains -0 or a negative value and +0 or a positive value
        crosses_cut = y_spans & np.signbit(X.lo)
        x_spans = np.signbit(X.lo) & ~np.signbit(X.hi)
        origin = y_spans & x_spans
        wide = crosses_cut | origin
        # a box touching the y axis only from one side still has its extremes at the corners
        lo = np.where(wide, -pi, lo)
        hi = np.where(wide, pi, hi)
        lo2, hi2 = self._widen(lo, hi, 1)
        return IV(np.where(wide, lo2, lo), np.where(wide, hi2, hi), Y.nan | X.nan, e | emp0)

    # ------------------------------------------------------------------ predicates
    def cmp(self, op, A, B):
        both = ~A.emp & ~B.emp
        anynan = A.nan | B.nan
        if op == "lt":
            t, f = both & (A.lo < B.hi), both & (A.hi >= B.lo)
        elif op == "le":
            t, f = both & (A.lo <= B.hi), both & (A.hi > B.lo)
        elif op == "gt":
            t, f = both & (A.hi > B.lo), both & (A.lo <= B.hi)
        elif op == "ge":
            t, f = both & (A.hi >= B.lo), both & (A.lo < B.hi)
        elif op == "eq":
            t, f = both & (A.lo <= B.hi) & (B.lo <= A.hi), both & ~((A.lo == A.hi) & (B.lo == B.hi) & (A.lo == B.lo))
        elif op == "ne":
            t, f = both & ~((A.lo == A.hi) & (B.lo == B.hi) & (A.lo == B.lo)), both & (A.lo <= B.hi) & (B.lo <= A.hi)
        else:
            raise Unsupported(op)
        if op == "ne":
            t = t | anynan
        else:
            f = f | anynan
        return BV(t, f)

    def is_finite(self, A):
        t = ~A.emp & ~((A.lo == self.fmt.inf) | (A.hi == -self.fmt.inf))
        f = A.nan | (~A.emp & (np.isinf(A.lo) | np.isinf(A.hi)))
        return BV(t, f)

    def band(self, a, b):
        return BV(a.t & b.t, a.f | b.f)

    def bor(self, a, b):
        return BV(a.t | b.t, a.f & b.f)

    def bnot(self, a):
        return BV(a.f, a.t)

    def bxor(self, a, b):
        return BV((a.t & b.f) | (a.f & b.t), (a.t & b.t) | (a.f & b.f))

    # ------------------------------------------------------------------ control
    def join(self, A, B):
        lo = np.where(A.emp, B.lo, np.where(B.emp, A.lo, tmin(A.lo, B.lo)))
        hi = np.where(A.emp, B.hi, np.where(B.emp, A.hi, tmax(A.hi, B.hi)))
        return IV(lo, hi, A.nan | B.nan, A.emp & B.emp)

    def select(self, C, A, B):
        if isinstance(A, BV):
            return BV((C.t & A.t) | (C.f & B.t), (C.t & A.f) | (C.f & B.f))
        onlyt = C.t & ~C.f
        onlyf = C.f & ~C.t
        J = self.join(A, B)
        none = ~C.t & ~C.f
        lo = np.where(onlyt, A.lo, np.where(onlyf, B.lo, J.lo))
        hi = np.where(onlyt, A.hi, np.where(onlyf, B.hi, J.hi))
        nan = np.where(onlyt, A.nan, np.where(onlyf, B.nan, J.nan)) & ~none
        emp = np.where(onlyt, A.emp, np.where(onlyf, B.emp, J.emp)) | none
        return IV(lo, hi, nan, emp)


_ARITH = {
    "add": "add", "subtract": "sub", "multiply": "mul", "divide": "div", "maximum": "maximum", "minimum": "minimum", "atan2": "atan2",
    "copysign": "copysign",
}
_UNARY = {
    "negative": "neg", "absolute": "absolute", "sqrt": "sqrt", "log": "log", "log1p": "log1p", "log2": "log2", "log10": "log10", "exp": "exp",
    "expm1": "expm1", "sin": "sin", "cos": "cos", "atan": "atan", "tanh": "tanh", "sinh": "sinh", "sign": "sign",
}


def evaluate(term, env, dom, memo=None, summaries=None):
    """Abstract value of an ir.normal Term under env: symbol name -> IV.  Iterative post-order (DAGs can be deep).
    summaries: optional {term: spec} of recognised error-free-transformation sub-terms (sa/eft_terms.py) whose enclosure by
    contract is intersected with the generic one."""
    memo = {} if memo is None else memo
    stack = [term]
    while stack:
        t = stack[-1]
        if t in memo:
            stack.pop()
            continue
        k = t[0]
        if k == "sym":
            memo[t] = env[t[1]]
            stack.pop()
            continue
        if k == "const":
            memo[t] = _const(t[1], dom)
            stack.pop()
            continue
        pending = [x for x in t[1:] if x not in memo]
        if pending:
            stack.extend(pending)
            continue
        a = [memo[x] for x in t[1:]]
        v = _apply(k, a, dom)
        if summaries and t in summaries and isinstance(v, IV):
            from .eft_terms import enclose, enclose_cascade

            spec = summaries[t]
            if spec[0] == "cascade":
                # spec = ("cascade", variable name, {constant symbol: value}, quadratic, number of items): valid only for this environment
                _, var_, consts_, q_, n_ = spec
                V = env.get(var_)
                if V is not None and all(nm in env and np.all(env[nm].lo == env[nm].hi) and np.all(np.asarray(env[nm].lo, dtype=np.float64) == cv) for nm, cv in consts_.items()):
                    v = enclose_cascade(q_, n_, V, dom, v)
            else:
                v = enclose(spec, memo.__getitem__, dom, lambda: v)
        memo[t] = v
        stack.pop()
    return memo[term]


def _const(cv, dom):
    tag = cv[0]
    if tag == "num":
        return dom.const(float.fromhex(cv[1]))
    if tag == "int":
        return dom.const(float(cv[1]))
    if tag == "bool":
        return dom.bconst(cv[1])
    if tag == "named":
        if cv[1] == "nan":
            return dom.const(float("nan"))
        return dom.const(dom.fmt.named(cv[1]))
    raise Unsupported(f"constant {cv!r}")


def _same_value(k, A, dom):
    """Operations on two occurrences of the *same* term (the memo returns one object per term): x - x, x / x, x == x ..."""
    f = dom.fmt
    if k == "subtract":
        # x - x is +0 for finite x, NaN for an infinite one
        return IV(np.where(A.emp, f.zero, f.zero), np.where(A.emp, f.zero, f.zero), A.nan | A.hasinf(), A.emp | (np.isinf(A.lo) & np.isinf(A.hi)))
    if k == "divide":
        bad = A.has0() | A.hasinf()
        only_bad = ((A.lo == 0) & (A.hi == 0)) | (np.isinf(A.lo) & np.isinf(A.hi) & (A.lo == A.hi))
        return IV(f.one + f.zero * A.lo * 0 if False else np.where(A.emp, f.one, f.one), np.where(A.emp, f.one, f.one), A.nan | bad, A.emp | only_bad)
    if k in ("eq", "le", "ge"):
        return BV(~A.emp, A.nan)
    if k in ("ne", "lt", "gt"):
        return BV(A.nan, ~A.emp)
    if k in ("maximum", "minimum"):
        return A
    return None


def _apply(k, a, dom):
    if len(a) == 2 and a[0] is a[1] and isinstance(a[0], IV):
        r = _same_value(k, a[0], dom)
        if r is not None:
            return r
    if k == "multiply" and len(a) == 2 and a[0] is a[1] and isinstance(a[0], IV):
        m = dom.absolute(a[0])
        return dom.mul(m, m)
    if k in _ARITH:
        return getattr(dom, _ARITH[k])(a[0], a[1])
    if k in _UNARY:
        return getattr(dom, _UNARY[k])(a[0])
    if k == "positive":
        return a[0]
    if k == "square":
        return dom.mul(a[0], a[0])
    if k in ("lt", "le", "gt", "ge", "eq", "ne"):
        if isinstance(a[0], BV) or isinstance(a[1], BV):
            raise Unsupported(f"comparison {k} of booleans")
        return dom.cmp(k, a[0], a[1])
    if k == "logical_and":
        return dom.band(a[0], a[1])
    if k == "logical_or":
        return dom.bor(a[0], a[1])
    if k == "logical_not":
        return dom.bnot(a[0])
    if k == "logical_xor":
        return dom.bxor(a[0], a[1])
    if k == "select":
        return dom.select(a[0], a[1], a[2])
    if k == "is_finite":
        return dom.is_finite(a[0])
    raise Unsupported(f"kind {k}")


# --------------------------------------------------------------------------- guard-refined evaluation


def _nextbelow(v, fmt):
    return np.nextafter(v, -fmt.inf)


def _nextabove(v, fmt):
    return np.nextafter(v, fmt.inf)


def _clip(U, lo=None, hi=None, no_nan=False):
    nlo = U.lo if lo is None else tmax(U.lo, lo)
    nhi = U.hi if hi is None else tmin(U.hi, hi)
    bad = tless(nhi, nlo)
    return IV(np.where(bad, U.lo, nlo), np.where(bad, U.hi, nhi), U.nan & (not no_nan), U.emp | bad, U.rel, U.abe)


def _guards(c, pol, val, dom):
    """Facts that hold when condition term c has truth value pol: list of (term, refined IV).  `val(t)` gives current values."""
    f = dom.fmt
    k = c[0]
    if k == "logical_not":
        return _guards(c[1], not pol, val, dom)
    if k == "logical_and":
        return (_guards(c[1], True, val, dom) + _guards(c[2], True, val, dom)) if pol else []
    if k == "logical_or":
        return [] if pol else (_guards(c[1], False, val, dom) + _guards(c[2], False, val, dom))
    if k == "is_finite":
        U = val(c[1])
        if isinstance(U, IV) and pol:
            return [(c[1], _clip(U, -f.largest, f.largest, no_nan=True))]
        return []
    if k in ("lt", "le", "gt", "ge", "eq", "ne"):
        a, b = c[1], c[2]
        A, B = val(a), val(b)
        if not (isinstance(A, IV) and isinstance(B, IV)):
            return []
        if k in ("gt", "ge"):
            a, b, A, B = b, a, B, A
            k = {"gt": "lt", "ge": "le"}[k]
        if k == "ne":
            k, pol = "eq", not pol
        out = []
        if k == "lt":
            if pol:
                out = [(a, _clip(A, hi=_nextbelow(B.hi, f), no_nan=True)), (b, _clip(B, lo=_nextabove(A.lo, f), no_nan=True))]
            else:
                out = [(a, _clip(A, lo=np.where(B.lo == 0, f.nzero, B.lo))), (b, _clip(B, hi=np.where(A.hi == 0, f.zero, A.hi)))]
        elif k == "le":
            if pol:
                out = [(a, _clip(A, hi=np.where(B.hi == 0, f.zero, B.hi), no_nan=True)), (b, _clip(B, lo=np.where(A.lo == 0, f.nzero, A.lo), no_nan=True))]
            else:
                out = [(a, _clip(A, lo=_nextabove(np.where(B.lo == 0, f.zero, B.lo), f))), (b, _clip(B, hi=_nextbelow(np.where(A.hi == 0, f.nzero, A.hi), f)))]
        elif k == "eq":
            if pol:
                lo = tmax(np.where(A.lo == 0, f.nzero, A.lo), np.where(B.lo == 0, f.nzero, B.lo))
                hi = tmin(np.where(A.hi == 0, f.zero, A.hi), np.where(B.hi == 0, f.zero, B.hi))
                out = [(a, _clip(A, lo, hi, no_nan=True)), (b, _clip(B, lo, hi, no_nan=True))]
            else:
                # a != b: puncture an end point of one side when the other side is a single value
                for (u, U, V) in ((a, A, B), (b, B, A)):
                    single = (V.lo == V.hi) & ~V.emp
                    lo = np.where(single & (U.lo == V.lo), _nextabove(np.where(U.lo == 0, f.zero, U.lo), f), U.lo)
                    hi = np.where(single & (U.hi == V.lo), _nextbelow(np.where(U.hi == 0, f.nzero, U.hi), f), U.hi)
                    out.append((u, _clip(U, lo, hi)))
        # constants are not worth overriding
        return [(t, v) for t, v in out if t[0] != "const"]
    return []


class GuardedEvaluator:
    """evaluate() with condition-guided refinement: the arms of select(c, a, b) are evaluated under the facts that c (resp.
    not c) establishes about *terms that occur in the arm* (same term, by identity): a value tested finite is finite in the
    arm that relies on it, u < v bounds u and v by each other.  Sound: a fact is only used in the arm it guards."""

    def __init__(self, root_terms, env, dom):
        self.env, self.dom = env, dom
        self.contains = {}
        self.roots = root_terms

    def _contains(self, t, g):
        key = (t, g)
        r = self.contains.get(key)
        if r is None:
            if t is g:
                r = True
            elif t[0] in ("sym", "const"):
                r = False
            else:
                r = any(self._contains(a, g) for a in t[1:])
            self.contains[key] = r
        return r

    def run(self, term):
        return _Ctx(self, None, {}).value(term)


class _Ctx:
    def __init__(self, ev, parent, ov):
        self.ev, self.parent, self.ov = ev, parent, ov
        self.memo = {}

    def value(self, t):
        v = self.ov.get(t)
        if v is not None:
            return v
        v = self.memo.get(t)
        if v is not None:
            return v
        if self.parent is not None and not any(self.ev._contains(t, g) for g in self.ov):
            return self.parent.value(t)
        k = t[0]
        dom = self.ev.dom
        if k == "sym":
            v = self.ev.env[t[1]]
        elif k == "const":
            v = _const(t[1], dom)
        elif k == "select":
            C = self.value(t[1])
            arms = []
            for arm, pol in ((t[2], True), (t[3], False)):
                facts = [(g, iv) for g, iv in _guards(t[1], pol, self.value, dom) if self.ev._contains(arm, g)]
                if facts:
                    ov = {}
                    for g, iv in facts:
                        ov[g] = iv if g not in ov else _clip(ov[g], iv.lo, iv.hi)
                    arms.append(_Ctx(self.ev, self, ov).value(arm))
                else:
                    arms.append(self.value(arm))
            v = dom.select(C, arms[0], arms[1])
        else:
            a = [self.value(x) for x in t[1:]]
            v = _apply(k, a, dom)
        self.memo[t] = v
        return v


# --------------------------------------------------------------------------- forward error analysis


class ErrDomain(Domain):
    """Interval domain that also carries, per value, an error bound  |computed - ideal| <= rel * |ideal| + abe,  where
    `ideal` is the exact real-arithmetic value of the same expression on the same inputs (classical forward error analysis).
    u = 2**-p is the unit roundoff of + - * / sqrt, eta = the spacing of subnormals (absolute error of a product or quotient
    that may underflow); library functions contribute LIBM_SLACK units in the last place and propagate input errors through
    a bound on their condition number / derivative.  Cancellation in a sum shows as (ra|a| + rb|b|) / |a + b|, the
    conditioning of log at 1 as ra / |log a|.  `select` takes the worst possible arm.  Inputs and exactly representable
    constants carry no error.  Magnitudes are taken from the computed intervals (first-order analysis)."""

    def __init__(self, fmt):
        super().__init__(fmt)
        self.u = np.float64(2.0 ** -fmt.p)
        self.ulib = np.float64(LIBM_SLACK * 2.0 ** (1 - fmt.p))
        self.eta = np.longdouble(fmt.tiny)
        self.small = np.longdouble(fmt.smallest)
        self.BIG = np.float64(1e30)

    # error components are kept as long doubles (abe can be far below the double range for float64 targets)
    @staticmethod
    def _e(A):
        return (np.float64(0.0) if A.rel is None else A.rel), (np.longdouble(0.0) if A.abe is None else A.abe)

    def _mag(self, A):
        lo, hi = A.lo.astype(np.longdouble), A.hi.astype(np.longdouble)
        amax = np.maximum(np.abs(lo), np.abs(hi))
        amin = np.where((lo <= 0) & (hi >= 0), np.longdouble(0.0), np.minimum(np.abs(lo), np.abs(hi)))
        return amin, amax

    def _cap(self, r):
        r = np.asarray(r, dtype=np.float64)
        return np.minimum(np.where(np.isnan(r), self.BIG, r), self.BIG)

    def _capa(self, a):
        a = np.asarray(a, dtype=np.longdouble)
        return np.where(np.isnan(a), np.longdouble(np.inf), a)

    def _set(self, out, rel, abe):
        out.rel, out.abe = self._cap(rel), self._capa(abe)
        return out

    def const(self, v):
        out = super().const(v)
        exact = np.float64(out.lo) == np.float64(v) or np.isnan(np.float64(v))
        return self._set(out, 0.0 if exact else self.u, 0.0)

    def box(self, lo, hi):
        return self._set(super().box(lo, hi), 0.0, 0.0)

    def neg(self, A):
        return self._set(super().neg(A), *self._e(A))

    def absolute(self, A):
        return self._set(super().absolute(A), *self._e(A))

    def add(self, A, B):
        out = super().add(A, B)
        (ra, aa), (rb, ab) = self._e(A), self._e(B)
        _, amax = self._mag(A)
        _, bmax = self._mag(B)
        smin, _ = self._mag(out)
        with np.errstate(all="ignore"):
            same_sign = ((A.lo >= 0) & (B.lo >= 0)) | ((A.hi <= 0) & (B.hi <= 0))
            mild = same_sign | ((smin > 0) & ((amax + bmax) <= 4 * smin))
            # without serious cancellation the operand errors stay relative; otherwise they are carried as an absolute error
            rel_mild = np.where(same_sign, np.maximum(ra, rb), ((ra * amax + rb * bmax) / np.where(smin > 0, smin, 1)).astype(np.float64))
            rel_mild = np.where((ra == 0) & (rb == 0), 0.0, rel_mild)
            rel = np.where(mild, rel_mild, 0.0)
            abe = np.where(mild, aa + ab, ra * amax + rb * bmax + aa + ab)
        # the sum of two floats is exact when it is subnormal: no eta term
        return self._set(out, rel * (1 + self.u) + self.u, abe * (1 + self.u))

    def mul(self, A, B):
        out = super().mul(A, B)
        (ra, aa), (rb, ab) = self._e(A), self._e(B)
        _, amax = self._mag(A)
        _, bmax = self._mag(B)
        omin, _ = self._mag(out)
        with np.errstate(all="ignore"):
            abe = amax * ab + bmax * aa + aa * ab
            abe = np.where((aa == 0) & (ab == 0), np.longdouble(0.0), abe)
            abe = abe + np.where(omin < self.small, self.eta, np.longdouble(0.0))
            # scaling by a power of two is exact (up to underflow, covered by eta)
            pow2 = np.zeros(np.shape(omin), dtype=bool)
            for S in (A, B):
                m, _ = np.frexp(np.abs(S.lo.astype(np.float64)))
                pow2 = pow2 | ((S.lo == S.hi) & (m == 0.5) & (self._e(S)[0] == 0))
            round_u = np.where(pow2, 0.0, self.u)
        return self._set(out, (ra + rb + ra * rb) * (1 + round_u) + round_u, abe)

    def div(self, A, B):
        out = super().div(A, B)
        (ra, aa), (rb, ab) = self._e(A), self._e(B)
        _, amax = self._mag(A)
        bmin, _ = self._mag(B)
        omin, _ = self._mag(out)
        with np.errstate(all="ignore"):
            abe = aa / bmin + ab * amax / (bmin * bmin)
            abe = np.where((aa == 0) & (ab == 0), np.longdouble(0.0), abe)
            abe = abe + np.where(omin < self.small, self.eta, np.longdouble(0.0))
            rel = (ra + rb) / (1 - np.minimum(rb, 0.5)) * (1 + self.u) + self.u
        return self._set(out, rel, abe)

    def sqrt(self, A):
        out = super().sqrt(A)
        ra, aa = self._e(A)
        amin, _ = self._mag(A)
        with np.errstate(all="ignore"):
            abe = np.where(aa == 0, np.longdouble(0.0), np.minimum(np.sqrt(aa), aa / (2 * np.sqrt(amin))))
        return self._set(out, ra / 2 * (1 + ra) + self.u, abe)

    def maximum(self, A, B):
        (ra, aa), (rb, ab) = self._e(A), self._e(B)
        return self._set(super().maximum(A, B), np.maximum(ra, rb), np.maximum(aa, ab))

    def minimum(self, A, B):
        (ra, aa), (rb, ab) = self._e(A), self._e(B)
        return self._set(super().minimum(A, B), np.maximum(ra, rb), np.maximum(aa, ab))

    def sign(self, A):
        return self._set(super().sign(A), 0.0, 0.0)

    def copysign(self, A, B):
        return self._set(super().copysign(A, B), *self._e(A))

    def _lib(self, A, out, cond, deriv):
        """library function: rel_out = cond * ra + ulib, abe_out = deriv * aa  (cond, deriv: sup over the interval)"""
        ra, aa = self._e(A)
        with np.errstate(all="ignore"):
            r_ = np.where(ra == 0, 0.0, np.asarray(cond * ra, dtype=np.float64))
            a_ = np.where(aa == 0, np.longdouble(0.0), deriv * aa)
        return self._set(out, r_ * (1 + self.ulib) + self.ulib, a_)

    def log(self, A):
        out = super().log(A)
        omin, _ = self._mag(out)
        amin, _ = self._mag(A)
        with np.errstate(all="ignore"):
            return self._lib(A, out, 1.0 / omin, 1.0 / amin)

    def log2(self, A):
        out = Domain.log2(self, A)
        omin, _ = self._mag(out)
        amin, _ = self._mag(A)
        with np.errstate(all="ignore"):
            return self._lib(A, out, 1.4426950408889634 / omin, 1.4426950408889634 / amin)

    def log10(self, A):
        out = Domain.log10(self, A)
        omin, _ = self._mag(out)
        amin, _ = self._mag(A)
        with np.errstate(all="ignore"):
            return self._lib(A, out, 0.4342944819032518 / omin, 0.4342944819032518 / amin)

    def log1p(self, A):
        out = super().log1p(A)
        lo = A.lo.astype(np.longdouble)
        with np.errstate(all="ignore"):
            d = np.where(lo >= 0, np.longdouble(1.0), 1.0 / np.maximum(1.0 + lo, np.longdouble(1e-4000)))
            # the derivative 1 / (1 + a) is decreasing: its supremum over the interval is taken at the lower end
            dd = 1.0 / np.maximum(1.0 + lo, np.longdouble(1e-4000))
        # |a / ((1 + a) log1p(a))| <= 1 for a >= 0 and <= 1 / (1 + a) for -1 < a < 0
        return self._lib(A, out, d, dd)

    def exp(self, A):
        out = super().exp(A)
        _, amax = self._mag(A)
        _, omax = self._mag(out)
        return self._lib(A, out, amax, omax)

    def expm1(self, A):
        out = super().expm1(A)
        _, amax = self._mag(A)
        _, omax = self._mag(out)
        return self._lib(A, out, np.maximum(amax, 1.0), omax + 1)

    def atan(self, A):
        return self._lib(A, super().atan(A), np.longdouble(1.0), np.longdouble(1.0))

    def tanh(self, A):
        return self._lib(A, super().tanh(A), np.longdouble(1.0), np.longdouble(1.0))

    def atan2(self, Y, X):
        out = super().atan2(Y, X)
        (ry, ay), (rx, ax) = self._e(Y), self._e(X)
        ymin, ymax = self._mag(Y)
        xmin, xmax = self._mag(X)
        with np.errstate(all="ignore"):
            # d(theta) = (x dy - y dx) / (x^2 + y^2) with dy = ry |y| + ay, dx = rx |x| + ax
            rel_part = ry + rx  # |x y| (rx + ry) / (x^2 + y^2) <= (rx + ry) |theta| ... kept relative
            abe = np.where((ay == 0) & (ax == 0), np.longdouble(0.0), (xmax * ay + ymax * ax) / (xmin * xmin + ymin * ymin))
        return self._set(out, rel_part * (1 + self.ulib) + self.ulib, abe)

    def _trig(self, A, out):
        # an exact argument only suffers the library's own error; a perturbed argument of unknown size is not bounded here
        ra, aa = self._e(A)
        exact = (np.asarray(ra) == 0) & (np.asarray(aa) == 0)
        return self._set(out, np.where(exact, self.ulib, self.BIG), 0.0)

    def sin(self, A):
        return self._trig(A, super().sin(A))

    def cos(self, A):
        return self._trig(A, super().cos(A))

    def join(self, A, B):
        out = super().join(A, B)
        (ra, aa), (rb, ab) = self._e(A), self._e(B)
        rel = np.where(A.emp, rb, np.where(B.emp, ra, np.maximum(ra, rb)))
        abe = np.where(A.emp, ab, np.where(B.emp, aa, np.maximum(aa, ab)))
        return self._set(out, rel, abe)

    def select(self, C, A, B):
        out = super().select(C, A, B)
        if isinstance(out, IV):
            (ra, aa), (rb, ab) = self._e(A), self._e(B)
            onlyt = C.t & ~C.f
            onlyf = C.f & ~C.t
            rel = np.where(onlyt, ra, np.where(onlyf, rb, np.where(A.emp, rb, np.where(B.emp, ra, np.maximum(ra, rb)))))
            abe = np.where(onlyt, aa, np.where(onlyf, ab, np.where(A.emp, ab, np.where(B.emp, aa, np.maximum(aa, ab)))))
            self._set(out, rel, abe)
        return out
