"""Shared model of the target tables: arities, evaluated tables, semantic reduction of templates."""

from __future__ import annotations

import ast
import os
import re

from .core import AnalysisError, loc
from .consteval import ev, table, table_entry_nodes, NOTIMPL, NameRef, Opaque
from . import tmpl
from .oracles import targets as O


# --------------------------------------------------------------------------- arities from the Context constructors


def kind_arities(repo):
    """kind -> arity, read off `def K(self, a, b): return Expr(self, "K", (a, b))` in class Context."""
    cls = repo.find("context.py", "Context")
    ar = {}
    for m in cls.body:
        if not isinstance(m, ast.FunctionDef):
            continue
        for n in ast.walk(m):
            if isinstance(n, ast.Return) and isinstance(n.value, ast.Call) and isinstance(n.value.func, ast.Name) and n.value.func.id == "Expr":
                a = n.value.args
                if len(a) == 3 and isinstance(a[1], ast.Constant) and isinstance(a[1].value, str) and isinstance(a[2], ast.Tuple):
                    if all(isinstance(e, ast.Name) for e in a[2].elts):
                        ar.setdefault(a[1].value, len(a[2].elts))
    if len(ar) < 50:
        raise AnalysisError(f"only {len(ar)} kind constructors recognised in Context (expected >= 50)")
    for k, v in O.FALLBACK_ARITY.items():
        ar.setdefault(k, v)
    return ar


def known_names(repo, name):
    """Evaluate expr.py's known_expression_kinds / known_constant_names string-splitting idiom."""
    node = repo.module_assign("expr.py", name)
    strs = [n.value for n in ast.walk(node) if isinstance(n, ast.Constant) and isinstance(n.value, str) and "," in n.value and len(n.value) > 3]
    if len(strs) != 1:
        raise AnalysisError(f"expr.py: `{name}` no longer has the one-string-split shape")
    return {s for s in strs[0].replace(" ", "").replace("\n", "").split(",") if s}


# --------------------------------------------------------------------------- semantic reduction


class Unknown(Exception):
    def __init__(self, name, what="function"):
        self.name = name
        self.what = what


def K(kind, *args):
    return ("k", kind, list(args))


def reduce_term(t, ops, funcs, lang):
    """Parsed template term -> semantic term ('k', kind, args) | ('arg', i) | ('lit', text) | ('named', n)."""
    k = t[0]
    if k in ("arg", "named"):
        return t
    if k == "num":
        return ("lit", _normnum(t[1]))
    if k == "str":
        return ("lit", repr(t[1]))
    if k == "op":
        if t[1] not in ops:
            raise Unknown(t[1], "operator")
        return K(ops[t[1]], *[reduce_term(a, ops, funcs, lang) for a in t[2]])
    if k == "call":
        callee = t[1]
        args = [reduce_term(a, ops, funcs, lang) for a in t[2]]
        if callee[0] == "name":
            if callee[1] not in funcs:
                raise Unknown(callee[1])
            return K(funcs[callee[1]], *args)
        if callee[0] == "tname" and callee[1] == "std::complex":
            return K("complex", *args)
        if callee[0] == "named":  # {type}(value) : a cast/constructor of the expression's own type
            return K("cast", ("named", callee[1]), *args)
        if callee[0] == "attr":
            base = reduce_term(callee[1], ops, funcs, lang)
            meth = callee[2]
            table = {"conjugate": "conjugate", "conj": "conjugate", "real": "real", "imag": "imag"}
            if meth in table and not args:
                return K(table[meth], base)
            raise Unknown("." + meth, "method")
        raise Unknown(tmpl.show(callee))
    if k == "attr":
        base = reduce_term(t[1], ops, funcs, lang)
        if lang == "python" and t[2] in ("real", "imag"):
            return K(t[2], base)
        raise Unknown("." + t[2], "attribute")
    if k == "index":
        return K("item", reduce_term(t[1], ops, funcs, lang), reduce_term(t[2], ops, funcs, lang))
    if k == "name":
        return ("cname", t[1])
    raise Unknown(tmpl.show(t), "construct")


def _normnum(s):
    s = s.rstrip("fFlLuU")
    try:
        v = float(s)
        if v == int(v):
            return str(int(v))
        return repr(v)
    except ValueError:
        return s


def accepts(kind, sem, arity):
    """Is the semantic term an implementation of kind(arg0..arg_{n-1})?  Returns (ok, reason)."""
    args = [("arg", i) for i in range(arity)] if arity is not None else None
    want = K(kind, *(args or []))
    if sem == want:
        return True, ""
    if sem[0] == "k" and arity == 2:
        a0, a1 = ("arg", 0), ("arg", 1)
        if kind in O.COMMUTATIVE and sem == K(kind, a1, a0):
            return True, ""
        if kind in O.MIRROR and sem == K(O.MIRROR[kind], a1, a0):
            return True, ""
    a0 = ("arg", 0)
    if kind == "positive" and sem == a0:
        return True, ""
    if kind == "square" and sem == K("multiply", a0, a0):
        return True, ""
    if kind == "sign":
        zero, one = ("lit", "0"), ("lit", "1")
        for z in (zero, a0):
            if sem == K("select", K("eq", a0, zero), z, K("copysign", one, a0)):
                return True, ""
    if kind == "negative" and sem == K("subtract", ("lit", "0"), a0):
        return False, "0 - x is not -x for x = +0"
    return False, f"template computes {show_sem(sem)}, the kind means {show_sem(want)}"


def show_sem(s):
    if s[0] == "k":
        return f"{s[1]}({', '.join(show_sem(a) for a in s[2])})"
    if s[0] == "arg":
        return f"${s[1]}"
    if s[0] == "named":
        return "{" + s[1] + "}"
    return str(s[1])


# --------------------------------------------------------------------------- name resolution (is the name bound in the target?)

_CPP_DECLS = None


def cpp_declared(name):
    """Is std::<name> declared by libstdc++'s <cmath>/<complex>/<algorithm>/<limits>?  None if headers are absent."""
    global _CPP_DECLS
    if _CPP_DECLS is None:
        base = None
        for cand in sorted(os.listdir("/usr/include/c++")) if os.path.isdir("/usr/include/c++") else []:
            base = os.path.join("/usr/include/c++", cand)
        _CPP_DECLS = set()
        if base:
            for rel in ("cmath", "complex", "limits", "bits/stl_algobase.h", "bits/stl_algo.h", "bits/std_abs.h", "cstdlib", "bits/specfun.h"):
                p = os.path.join(base, rel)
                if os.path.exists(p):
                    with open(p, errors="replace") as f:
                        _CPP_DECLS.update(re.findall(r"\b([A-Za-z_]\w*)\s*\(", f.read()))
    if not _CPP_DECLS:
        return None
    return name in _CPP_DECLS


def python_resolves(dotted, header_defs=()):
    """Does `math.x` / `numpy.x` / builtin name exist?  None when the module cannot be inspected."""
    import builtins
    import importlib

    parts = dotted.split(".")
    if parts[0] in header_defs and len(parts) == 1:
        return True
    if len(parts) == 1:
        return hasattr(builtins, parts[0])
    try:
        obj = importlib.import_module(parts[0])
    except Exception:
        return None
    for p in parts[1:]:
        if not hasattr(obj, p):
            return False
        obj = getattr(obj, p)
    return True


def header_python_defs(repo, rel):
    """Names defined by the module-level `source_file_header` Python text of a target."""
    try:
        node = repo.module_assign(rel, "source_file_header")
    except AnalysisError:
        return set()
    text = None
    for n in ast.walk(node):
        if isinstance(n, ast.Constant) and isinstance(n.value, str):
            text = n.value
    defs = set()
    if text:
        try:
            for st in ast.parse(text).body:
                if isinstance(st, (ast.FunctionDef, ast.ClassDef)):
                    defs.add(st.name)
                elif isinstance(st, ast.Import):
                    for a in st.names:
                        defs.add((a.asname or a.name).split(".")[0])
        except SyntaxError:
            pass
    return defs


# --------------------------------------------------------------------------- table loading


class Target:
    def __init__(self, repo, name):
        self.repo = repo
        self.name = name
        self.rel = f"targets/{name}.py"
        self.tree = repo.tree(self.rel)
        self.kinds, self.kinds_node = table(repo, self.rel, "kind_to_target")
        self.kind_nodes = table_entry_nodes(self.kinds_node)
        self.consts, self.consts_node = table(repo, self.rel, "constant_to_target")
        self.const_nodes = table_entry_nodes(self.consts_node)
        self.printer = None
        for n in self.tree.body:
            if isinstance(n, ast.ClassDef) and n.name == "Printer":
                self.printer = n
        if self.printer is None:
            raise AnalysisError(f"{self.rel}: class Printer vanished")
        # type_to_target may be module level or in the Printer body
        try:
            self.types, self.types_node = table(repo, self.rel, "type_to_target")
        except AnalysisError:
            try:
                self.types, self.types_node = table(repo, self.rel, "type_to_target", container=self.printer)
            except AnalysisError:
                self.types, self.types_node = None, None

    def where(self, kind):
        n = self.kind_nodes.get(kind, self.kinds_node)
        return loc(self.rel, n)

    def method(self, name):
        for m in self.printer.body:
            if isinstance(m, ast.FunctionDef) and m.name == name:
                return m
        return None
