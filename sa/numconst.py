"""IEEE-754 binary16/32/64 parameters and helpers for constant audits (no repository code is run)."""

from __future__ import annotations

import ast
import struct
from fractions import Fraction

from .core import AnalysisError
from .consteval import ev, Opaque, NameRef
from .paths import dotted

BITS = (16, 32, 64)
PREC = {16: 11, 32: 24, 64: 53}
EXPBITS = {16: 5, 32: 8, 64: 11}
MANTBITS = {16: 10, 32: 23, 64: 52}
EMAX = {16: 15, 32: 127, 64: 1023}
EMIN = {16: -14, 32: -126, 64: -1022}
LARGEST = {b: Fraction(2) ** EMAX[b] * (2 - Fraction(1, 2 ** (PREC[b] - 1))) for b in BITS}
FMT = {16: "e", 32: "f", 64: "d"}

LN2 = Fraction(
    "0.693147180559945309417232121458176568075500134360255254120680009493393621969694715605863326996418687"
)
LN2INV = Fraction(
    "1.442695040888963407359924681001892137426645954152985934135449406931109219181185079885526622893506344"
)


def round_to(bits, x):
    """Round a Python float / Fraction literal to the binary format (round-to-nearest-even), exactly, as Fraction."""
    if bits == 64:
        return Fraction(float(x))
    v = struct.unpack(FMT[bits], struct.pack(FMT[bits], float(x)))[0]
    return Fraction(v)


def ulp(bits, x):
    """Unit in the last place of |x| in the format (x a non-zero Fraction within the normal range or subnormal)."""
    x = abs(Fraction(x))
    if x == 0:
        return Fraction(2) ** (EMIN[bits] - PREC[bits] + 1)
    e = 0
    # find e with 2^e <= x < 2^(e+1)
    while Fraction(2) ** (e + 1) <= x:
        e += 1
    while Fraction(2) ** e > x:
        e -= 1
    e = max(e, EMIN[bits])
    return Fraction(2) ** (e - PREC[bits] + 1)


def significant_bits(x):
    """Number of significand bits the exact binary expansion of the Fraction needs."""
    x = abs(Fraction(x))
    if x == 0:
        return 0
    n, d = x.numerator, x.denominator
    if d & (d - 1):
        raise AnalysisError(f"{x} is not a dyadic rational")
    while n % 2 == 0:
        n //= 2
    return n.bit_length()


def dtype_switch(node, largest_name="largest"):
    """Decode select(largest > T1, A, select(largest > T2, B, C)) into {64: A, 32: B, 16: C} (AST nodes).

    The thresholds must separate the three `largest` values."""
    out = {}
    remaining = set(BITS)
    cur = node
    while True:
        if not (isinstance(cur, ast.Call) and (dotted(cur.func) or "").endswith("select") and len(cur.args) == 3):
            break
        cond, a, b = cur.args
        if not (isinstance(cond, ast.Compare) and len(cond.ops) == 1 and isinstance(cond.ops[0], ast.Gt) and dotted(cond.left) == largest_name):
            raise AnalysisError(f"dtype switch condition `{ast.unparse(cond)}` not of the form `{largest_name} > T`")
        t = ev(cond.comparators[0])
        if not isinstance(t, (int, float)):
            raise AnalysisError("dtype switch threshold is not a number")
        hit = {bts for bts in remaining if LARGEST[bts] > Fraction(t)}
        if len(hit) != 1:
            return None, f"threshold {t} selects formats {sorted(hit)} among {sorted(remaining)}: it does not separate the largest values"
        out[hit.pop()] = a
        remaining -= set(out)
        cur = b
    if len(remaining) != 1:
        return None, f"dtype switch leaves formats {sorted(remaining)} for the final branch"
    out[remaining.pop()] = cur
    return out, ""


def int_env_eval(node, env):
    v = ev(node, env)
    if isinstance(v, (Opaque, NameRef)):
        raise AnalysisError(f"cannot evaluate `{ast.unparse(node)}` with {env}")
    return v


# --------------------------------------------------------------------------- finfo model / rename-invariant local constants


class FinfoSubst(ast.NodeTransformer):
    """Replace numpy.finfo attributes, get_precision(dtype) and dtype(<expr>) wrappers by their IEEE meaning for one format."""

    def __init__(self, bits, finfo_names=(), dtype_names=("dtype",)):
        self.bits = bits
        self.p = PREC[bits]
        self.names = set(finfo_names)
        self.dtype_names = set(dtype_names)
        eb = EXPBITS[bits]
        self.attrs = dict(negep=-self.p, machep=-(self.p - 1), nmant=self.p - 1, bits=bits, nexp=eb, iexp=eb,
                          maxexp=2 ** (eb - 1), minexp=2 - 2 ** (eb - 1))
        self.unknown = None

    def _is_finfo(self, n):
        if isinstance(n, ast.Name) and n.id in self.names:
            return True
        return isinstance(n, ast.Call) and (dotted(n.func) or "").endswith("finfo")

    def visit_Attribute(self, n):
        if self._is_finfo(n.value):
            if n.attr not in self.attrs:
                self.unknown = n.attr
                return n
            return ast.copy_location(ast.Constant(self.attrs[n.attr]), n)
        return self.generic_visit(n)

    def visit_Call(self, n):
        d = dotted(n.func) or ""
        if d.endswith("get_precision"):
            return ast.copy_location(ast.Constant(self.p), n)
        if d.endswith("get_maxexp"):
            return ast.copy_location(ast.Constant(self.attrs["maxexp"]), n)
        if d in self.dtype_names and len(n.args) == 1 and not n.keywords:
            return self.visit(n.args[0])
        return self.generic_visit(n)


def finfo_names(func):
    out = set()
    for st in ast.walk(func):
        if isinstance(st, ast.Assign) and isinstance(st.value, ast.Call) and (dotted(st.value.func) or "").endswith("finfo"):
            out |= {t.id for t in st.targets if isinstance(t, ast.Name)}
    return out


def eval_for_format(node, bits, func=None, env=None):
    """Value of an expression for one format under the finfo model (Opaque when it is not a constant)."""
    from .core import fresh_copy

    tr = FinfoSubst(bits, finfo_names(func) if func is not None else ())
    e = tr.visit(fresh_copy(node))
    if tr.unknown:
        return Opaque(node, f"finfo.{tr.unknown} not modelled")
    return ev(e, env or {})


def local_env(func, bits, scopes=None, extra=None):
    """Constant values of the local variables of `func` (and of the enclosing functions in `scopes`, outermost first) for one
    format: simple assignments are evaluated in source order under the finfo model.  Names are whatever the code uses - the
    environment is keyed by the code's own names, so callers never assume a spelling."""
    env = dict(extra or {})
    for f in list(scopes or []) + [func]:
        fn = finfo_names(f)
        stmts = sorted((st for st in ast.walk(f) if isinstance(st, ast.Assign) and len(st.targets) == 1 and isinstance(st.targets[0], ast.Name)),
                       key=lambda st: (st.lineno, st.col_offset))
        for st in stmts:
            # statements of nested functions are evaluated when that function is the subject
            owner = st
            while owner is not None and not isinstance(owner, (ast.FunctionDef, ast.AsyncFunctionDef, ast.Lambda)):
                owner = getattr(owner, "_parent", None)
            if owner is not f:
                continue
            from .core import fresh_copy

            tr = FinfoSubst(bits, fn)
            e = tr.visit(fresh_copy(st.value))
            if tr.unknown:
                continue
            v = ev(e, env)
            if not isinstance(v, (Opaque, NameRef)):
                env[st.targets[0].id] = v
    return env


def check_getters(r, repo, rule, rel="utils.py"):
    """utils.get_precision / utils.get_maxexp (which FinfoSubst trusts) return the precision / maxexp of every format."""
    from .core import loc, norm_src

    for name, want in (("get_precision", lambda b: PREC[b]), ("get_maxexp", lambda b: EMAX[b] + 1)):
        g = repo.func(rel, name)
        rets = [n for n in ast.walk(g) if isinstance(n, ast.Return) and n.value is not None]
        if len(rets) != 1:
            raise AnalysisError(f"{rel}::{name}: expected one return")
        for b in BITS:
            v = eval_for_format(rets[0].value, b, g)
            r.ob(rule, f"{rel}::{name} float{b}", v == want(b), f"`{norm_src(rets[0].value)}` gives {v}, expected {want(b)}", loc(rel, g))
