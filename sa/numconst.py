"""IEEE-754 binary16/32/64 parameters and helpers for constant audits (no repository code is run)."""

from __future__ import annotations

import ast
import struct
from fractions import Fraction

from .core import AnalysisError
from .consteval import ev, Opaque, NameRef
from .paths import dotted

BITS = (16, 32, 64)
PREC = {16: 11, 32: 24, 64: 53}
EXPBITS = {16: 5, 32: 8, 64: 11}
MANTBITS = {16: 10, 32: 23, 64: 52}
EMAX = {16: 15, 32: 127, 64: 1023}
EMIN = {16: -14, 32: -126, 64: -1022}
LARGEST = {b: Fraction(2) ** EMAX[b] * (2 - Fraction(1, 2 ** (PREC[b] - 1))) for b in BITS}
FMT = {16: "e", 32: "f", 64: "d"}

LN2 = Fraction(
    "0.693147180559945309417232121458176568075500134360255254120680009493393621969694715605863326996418687"
)
LN2INV = Fraction(
    "1.442695040888963407359924681001892137426645954152985934135449406931109219181185079885526622893506344"
)


def round_to(bits, x):
    """Round a Python float / Fraction literal to the binary format (round-to-nearest-even), exactly, as Fraction."""
    if bits == 64:
        return Fraction(float(x))
    v = struct.unpack(FMT[bits], struct.pack(FMT[bits], float(x)))[0]
    return Fraction(v)


def ulp(bits, x):
    """Unit in the last place of |x| in the format (x a non-zero Fraction within the normal range or subnormal)."""
    x = abs(Fraction(x))
    if x == 0:
        return Fraction(2) ** (EMIN[bits] - PREC[bits] + 1)
    e = 0
    # find e with 2^e <= x < 2^(e+1)
    while Fraction(2) ** (e + 1) <= x:
        e += 1
    while Fraction(2) ** e > x:
        e -= 1
    e = max(e, EMIN[bits])
    return Fraction(2) ** (e - PREC[bits] + 1)


def significant_bits(x):
    """Number of significand bits the exact binary expansion of the Fraction needs."""
    x = abs(Fraction(x))
    if x == 0:
        return 0
    n, d = x.numerator, x.denominator
    if d & (d - 1):
        raise AnalysisError(f"{x} is not a dyadic rational")
    while n % 2 == 0:
        n //= 2
    return n.bit_length()


def dtype_switch(node, largest_name="largest"):
    """Decode select(largest > T1, A, select(largest > T2, B, C)) into {64: A, 32: B, 16: C} (AST nodes).

    The thresholds must separate the three `largest` values."""
    out = {}
    remaining = set(BITS)
    cur = node
    while True:
        if not (isinstance(cur, ast.Call) and (dotted(cur.func) or "").endswith("select") and len(cur.args) == 3):
            break
        cond, a, b = cur.args
        if not (isinstance(cond, ast.Compare) and len(cond.ops) == 1 and isinstance(cond.ops[0], ast.Gt) and dotted(cond.left) == largest_name):
            raise AnalysisError(f"dtype switch condition `{ast.unparse(cond)}` not of the form `{largest_name} > T`")
        t = ev(cond.comparators[0])
        if not isinstance(t, (int, float)):
            raise AnalysisError("dtype switch threshold is not a number")
        hit = {bts for bts in remaining if LARGEST[bts] > Fraction(t)}
        if len(hit) != 1:
            return None, f"threshold {t} selects formats {sorted(hit)} among {sorted(remaining)}: it does not separate the largest values"
        out[hit.pop()] = a
        remaining -= set(out)
        cur = b
    if len(remaining) != 1:
        return None, f"dtype switch leaves formats {sorted(remaining)} for the final branch"
    out[remaining.pop()] = cur
    return out, ""


def int_env_eval(node, env):
    v = ev(node, env)
    if isinstance(v, (Opaque, NameRef)):
        raise AnalysisError(f"cannot evaluate `{ast.unparse(node)}` with {env}")
    return v
