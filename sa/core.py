"""Engine A core: source model, obligations, reports, evidence, known findings.

Nothing here imports the repository under analysis.  Files are read from disk on
every run; every consulted file is recorded with its sha256.
"""

from __future__ import annotations

import ast
import hashlib
import json
import os
import sys
import time
import traceback

VERIF = os.path.dirname(os.path.dirname(os.path.abspath(__file__)))
PKG = "functional_algorithms"


class AnalysisError(Exception):
    """The analysis itself cannot proceed (anchor vanished, unknown shape, floor not met).

    Always exit code 2, never a pass and never a violation."""


# --------------------------------------------------------------------------- source model


class Repo:
    def __init__(self, root="/repo"):
        self.root = os.path.abspath(root)
        self.pkg = os.path.join(self.root, PKG)
        if not os.path.isdir(self.pkg):
            raise AnalysisError(f"package directory {self.pkg} not found")
        self._src = {}
        self._tree = {}
        self.consulted = {}

    def path(self, rel):
        return os.path.join(self.pkg, rel)

    def exists(self, rel):
        return os.path.isfile(self.path(rel))

    def source(self, rel):
        if rel not in self._src:
            p = self.path(rel)
            try:
                with open(p, "rb") as f:
                    data = f.read()
            except OSError as e:
                raise AnalysisError(f"cannot read anchor file {PKG}/{rel}: {e}")
            self.consulted[f"{PKG}/{rel}"] = hashlib.sha256(data).hexdigest()
            self._src[rel] = data.decode("utf-8")
        return self._src[rel]

    def tree(self, rel):
        if rel not in self._tree:
            try:
                t = ast.parse(self.source(rel), filename=rel)
            except SyntaxError as e:
                raise AnalysisError(f"{PKG}/{rel} does not parse: {e}")
            for parent in ast.walk(t):
                for child in ast.iter_child_nodes(parent):
                    child._parent = parent
            self._tree[rel] = t
        return self._tree[rel]

    def segment(self, rel, node):
        return ast.get_source_segment(self.source(rel), node) or ""

    # ---- lookups (fail closed)

    def find(self, rel, qualname, kinds=(ast.FunctionDef, ast.ClassDef, ast.AsyncFunctionDef)):
        """Find a def/class by dotted qualname; nested defs are searched at any depth of the parent body."""
        node = self.tree(rel)
        for part in qualname.split("."):
            found = None
            # breadth-first inside the current node, not descending into other defs first
            stack = list(ast.iter_child_nodes(node))
            while stack:
                n = stack.pop(0)
                if isinstance(n, kinds) and n.name == part:
                    found = n
                    break
                if not isinstance(n, (ast.FunctionDef, ast.ClassDef, ast.AsyncFunctionDef, ast.Lambda)):
                    stack.extend(ast.iter_child_nodes(n))
            if found is None:
                raise AnalysisError(f"anchor vanished: {PKG}/{rel}::{qualname} (no `{part}`)")
            node = found
        return node

    def func(self, rel, qualname):
        n = self.find(rel, qualname)
        if not isinstance(n, (ast.FunctionDef, ast.AsyncFunctionDef)):
            raise AnalysisError(f"{PKG}/{rel}::{qualname} is not a function")
        return n

    def has(self, rel, qualname):
        try:
            self.find(rel, qualname)
            return True
        except AnalysisError:
            return False

    def module_assign(self, rel, name, container=None):
        """Return the value node of the last simple assignment `name = ...` at module (or class body) level."""
        body = (container or self.tree(rel)).body
        val = None
        for st in body:
            if isinstance(st, ast.Assign):
                for t in st.targets:
                    if isinstance(t, ast.Name) and t.id == name:
                        val = st.value
            elif isinstance(st, ast.AnnAssign) and isinstance(st.target, ast.Name) and st.target.id == name and st.value:
                val = st.value
        if val is None:
            where = f"{PKG}/{rel}" + (f"::{container.name}" if container is not None else "")
            raise AnalysisError(f"anchor vanished: assignment `{name} = ...` in {where}")
        return val

    def py_files(self, subdir=""):
        out = []
        base = os.path.join(self.pkg, subdir)
        for dp, dn, fn in os.walk(base):
            dn[:] = [d for d in dn if d not in ("tests", "__pycache__")]
            for f in sorted(fn):
                if f.endswith(".py"):
                    out.append(os.path.relpath(os.path.join(dp, f), self.pkg))
        return sorted(out)


def loc(rel, node):
    return f"{PKG}/{rel}:{getattr(node, 'lineno', '?')}"


def norm_src(node):
    """Position-independent text of a node (used in finding keys)."""
    try:
        return ast.unparse(node)
    except Exception:  # pragma: no cover
        return ast.dump(node)


def canon_locals(func):
    """Rename-invariant names for the local variables of a function.

    A local is named after the canonical text of its first defining expression (recursively, so the name does not depend
    on the spelling of any local, nor on statement order): 'L' + 6 hex digits.  Parameters, attributes, globals and names
    bound by nested def/class keep their names (they are interface).  Locals whose definition cannot be resolved
    (cycles, augmented first binding) fall back to their binding order."""
    import hashlib

    params = {a.arg for a in func.args.args + func.args.kwonlyargs + func.args.posonlyargs}
    if func.args.vararg:
        params.add(func.args.vararg.arg)
    if func.args.kwarg:
        params.add(func.args.kwarg.arg)
    keep = set(params)
    for x in ast.walk(func):
        if isinstance(x, (ast.Global, ast.Nonlocal)):
            keep |= set(x.names)
        if isinstance(x, (ast.FunctionDef, ast.AsyncFunctionDef, ast.ClassDef)) and x is not func:
            keep.add(x.name)
    first = {}  # local -> (position, defining expression or None, tag)

    def bind(target, value, tag, pos):
        if isinstance(target, ast.Name):
            if target.id not in keep and (target.id not in first or pos < first[target.id][0]):
                first[target.id] = (pos, value, tag)
        elif isinstance(target, (ast.Tuple, ast.List)):
            if isinstance(value, (ast.Tuple, ast.List)) and len(value.elts) == len(target.elts):
                for t, v in zip(target.elts, value.elts):
                    bind(t, v, tag, pos)
            else:
                for i, t in enumerate(target.elts):
                    bind(t, value, f"{tag}[{i}]", pos)
        elif isinstance(target, ast.Starred):
            bind(target.value, value, tag + "*", pos)

    for x in ast.walk(func):
        pos = (getattr(x, "lineno", 0), getattr(x, "col_offset", 0))
        if isinstance(x, ast.Assign):
            for t in x.targets:
                bind(t, x.value, "=", pos)
        elif isinstance(x, ast.AnnAssign) and x.value is not None:
            bind(x.target, x.value, "=", pos)
        elif isinstance(x, ast.AugAssign):
            bind(x.target, None, "aug", pos)
        elif isinstance(x, (ast.For, ast.AsyncFor)):
            bind(x.target, x.iter, "for", pos)
        elif isinstance(x, ast.comprehension):
            bind(x.target, x.iter, "for", (x.target.lineno, x.target.col_offset))
        elif isinstance(x, ast.withitem) and x.optional_vars is not None:
            bind(x.optional_vars, x.context_expr, "with", (x.optional_vars.lineno, x.optional_vars.col_offset))
        elif isinstance(x, ast.NamedExpr):
            bind(x.target, x.value, ":=", pos)
        elif isinstance(x, ast.ExceptHandler) and x.name and x.name not in keep:
            first.setdefault(x.name, (pos, None, "except"))
    out = {}
    busy = set()
    order = {nm: i for i, nm in enumerate(sorted(first, key=lambda n: first[n][0]))}

    def name_of(nm):
        if nm in out:
            return out[nm]
        if nm in busy:
            return None
        busy.add(nm)
        pos, value, tag = first[nm]
        res = None
        if value is not None:
            sub = {}
            ok = True
            for y in ast.walk(value):
                if isinstance(y, ast.Name) and y.id in first and y.id != nm:
                    c = name_of(y.id)
                    if c is None:
                        ok = False
                        break
                    sub[y.id] = c
                elif isinstance(y, ast.Name) and y.id == nm:
                    ok = False
                    break
            if ok:
                txt = tag + norm_src(_Renamer(sub).visit(fresh_copy(value)))
                res = "L" + hashlib.sha1(txt.encode()).hexdigest()[:6]
        busy.discard(nm)
        if res is None:
            res = f"v{order[nm] + 1}"
        out[nm] = res
        return res

    for nm in first:
        name_of(nm)
    # distinct locals with identical definitions (x = 0; y = 0) must stay distinct
    seen = {}
    for nm in sorted(out, key=lambda n: first[n][0]):
        c = out[nm]
        if c in seen:
            seen[c] += 1
            out[nm] = f"{c}_{seen[c]}"
        else:
            seen[c] = 1
    return out


def fresh_copy(node):
    """Parent-free copy of an expression or statement (nodes of Repo trees carry _parent links, which deepcopy would follow)."""
    src = ast.unparse(node)
    try:
        return ast.parse(src, mode="eval").body
    except SyntaxError:
        return ast.parse(src).body[0]


class _Renamer(ast.NodeTransformer):
    def __init__(self, mapping):
        self.mapping = mapping

    def visit_Name(self, n):
        return ast.copy_location(ast.Name(id=self.mapping.get(n.id, n.id), ctx=n.ctx), n)


def canon_src(node, mapping):
    """norm_src of the node with local variables replaced by their canonical names (see canon_locals)."""
    return norm_src(_Renamer(mapping).visit(fresh_copy(node)))


def single_defs(func):
    """Locals of `func` bound exactly once, by a plain `name = expr` statement: name -> expr."""
    cl = canon_locals(func)
    count = {}
    defs = {}
    for x in ast.walk(func):
        if isinstance(x, ast.Name) and isinstance(x.ctx, (ast.Store, ast.Del)) and x.id in cl:
            count[x.id] = count.get(x.id, 0) + 1
        if isinstance(x, ast.AugAssign) and isinstance(x.target, ast.Name):
            count[x.target.id] = count.get(x.target.id, 0) + 1
        if isinstance(x, ast.Assign) and len(x.targets) == 1 and isinstance(x.targets[0], ast.Name):
            defs[x.targets[0].id] = x.value
    return {n: v for n, v in defs.items() if count.get(n) == 1}


def inline_locals(node, func, depth=8):
    """Copy of `node` in which every single-definition local of `func` is replaced by its definition (recursively):
    the result mentions only parameters, attributes, globals and multiply-bound locals, so it does not depend on how
    intermediate values are named."""
    defs = single_defs(func)

    class T(ast.NodeTransformer):
        def __init__(self, d):
            self.d = d

        def visit_Name(self, n):
            if isinstance(n.ctx, ast.Load) and n.id in defs and self.d > 0:
                return T(self.d - 1).visit(fresh_copy(defs[n.id]))
            return n

    return T(depth).visit(fresh_copy(node))


def inlined_src(node, func):
    return norm_src(inline_locals(node, func))


def enclosing_function(node):
    names = []
    n = getattr(node, "_parent", None)
    while n is not None:
        if isinstance(n, (ast.FunctionDef, ast.AsyncFunctionDef, ast.ClassDef)):
            names.append(n.name)
        n = getattr(n, "_parent", None)
    return ".".join(reversed(names))


# --------------------------------------------------------------------------- known findings


def load_known():
    p = os.path.join(VERIF, "known_findings.json")
    if not os.path.exists(p):
        return []
    with open(p) as f:
        return json.load(f)["findings"]


# --------------------------------------------------------------------------- report


class Report:
    """Collects obligations of one property check and turns them into stdout, evidence and exit code."""

    def __init__(self, prop, tier, repo, level="other", design_ref=""):
        self.prop = prop
        self.tier = tier
        self.repo = repo
        self.level = level
        self.design_ref = design_ref
        self.t0 = time.time()
        self.obligations = []  # dict(rule,key,ok,detail,loc)
        self._seen = set()
        self.infos = []
        self.rules = {}
        self.floors = {}
        self.counts = {}
        self.samples = []
        self.assumptions = []
        self.trusted_base = []
        self.extra = {}
        self.explanation = ""
        self.seed = int(os.environ.get("VERIF_SEED", "0") or 0)

    # rule registry: id -> one-line statement
    def rule(self, rid, text, floor=None):
        self.rules[rid] = text
        if floor is not None:
            self.floors[rid] = floor
        self.counts.setdefault(rid, 0)

    def ob(self, rule, key, ok, detail="", where="", sample=None):
        """Record one obligation.  key identifies the construct (no line numbers)."""
        assert rule in self.rules, rule
        if (rule, key, bool(ok)) in self._seen:
            return ok
        self._seen.add((rule, key, bool(ok)))
        self.counts[rule] += 1
        rec = dict(rule=rule, key=key, ok=bool(ok), detail=detail, loc=where)
        self.obligations.append(rec)
        if sample is not None and len(self.samples) < 40:
            self.samples.append(sample)
        elif len([s for s in self.samples if isinstance(s, dict) and s.get("rule") == rule]) < 3:
            self.samples.append(dict(rule=rule, key=key, loc=where, ok=bool(ok), detail=detail[:200]))
        return ok

    def absorb(self, other, mapping, text, floor=None, select=None):
        """Take the obligations of selected rules of another property's report as a rule of this one (a clause the two
        properties share).  mapping: other's rule id -> this report's rule id.  Known findings stay attached to the other
        property: an obligation listed there as known is not copied."""
        known = {(k["rule"], k["key"]) for k in load_known() if k.get("property") == other.prop and k.get("status") == "known"}
        for new in set(mapping.values()):
            if new not in self.rules:
                self.rule(new, text, floor=floor)
        for o in other.obligations:
            new = mapping.get(o["rule"])
            if new is None or (o["rule"], o["key"]) in known or (select is not None and not select(o)):
                continue
            self.ob(new, f"[{other.prop} {o['rule']}] {o['key']}", o["ok"], o["detail"], o["loc"])

    def info(self, rule, text):
        self.infos.append(f"[{rule}] {text}")

    # ---- finish

    def finish(self):
        # floors: a rule that matched fewer instances than confirmed by hand is an analysis failure - unless the run already
        # found an unlisted violation, which is reported as such (the floor only guards against vacuous passes)
        _known = {(k["rule"], k["key"]) for k in load_known() if k.get("property") == self.prop and k.get("status") == "known"}
        has_violation = any(not o["ok"] and (o["rule"], o["key"]) not in _known for o in self.obligations)
        for rid, floor in self.floors.items():
            if has_violation:
                break
            if self.counts.get(rid, 0) < floor:
                raise AnalysisError(
                    f"rule {rid} matched {self.counts.get(rid, 0)} instances, below the floor {floor} confirmed by hand"
                )
        known = [k for k in load_known() if k.get("property") == self.prop and k.get("status") == "known"]
        known_keys = {(k["rule"], k["key"]): k for k in known}
        violations = []
        known_hits = []
        for o in self.obligations:
            if o["ok"]:
                continue
            k = known_keys.get((o["rule"], o["key"]))
            if k is not None:
                known_hits.append((o, k))
            else:
                violations.append(o)
        wall = time.time() - self.t0
        n_ob = len(self.obligations)
        n_ok = sum(1 for o in self.obligations if o["ok"])
        print(f"== {self.prop} [{self.tier}] static check on {self.repo.root}")
        for rid, text in self.rules.items():
            bad = sum(1 for o in self.obligations if o["rule"] == rid and not o["ok"])
            print(f"   rule {rid}: {self.counts.get(rid, 0)} instances, {bad} not discharged — {text}")
        for i in self.infos:
            print("   info", i)
        print(f"   files analysed: {len(self.repo.consulted)}; obligations {n_ob}, discharged {n_ok}")
        seen = set()
        for o, k in known_hits:
            if (o["rule"], o["key"]) in seen:
                continue
            seen.add((o["rule"], o["key"]))
            print(f"KNOWN-FINDING: property={self.prop} rule={o['rule']} {o['key']} — {k.get('what_fails', o['detail'])}")
        replay = None
        if violations:
            vdir = os.path.join(VERIF, "evidence", "violations") if not os.environ.get("VERIF_NO_EVIDENCE") else "/tmp/fa-verif-violations"
            os.makedirs(vdir, exist_ok=True)
            replay = os.path.join(vdir, f"{self.prop}.json")
            with open(replay, "w") as f:
                json.dump(dict(property=self.prop, repo=self.repo.root, violations=violations), f, indent=1)
            for o in violations:
                print(f"   VIOLATED {o['rule']} at {o['loc']}: {o['key']}\n      {o['detail']}")
            print(f"VIOLATION property={self.prop} replay={replay}")
        cov = dict(
            explanation=self.explanation
            or f"Static rules {sorted(self.rules)} over the current source of {self.repo.root}; see DESIGN.md {self.design_ref}",
            obligations=n_ob,
            discharged=n_ok + len(known_hits),
            known_findings=len(seen),
            rules=self.rules,
            rule_instances=self.counts,
            instance_floors=self.floors,
            samples=self.samples[:60] or [dict(note="no instances")],
            files=self.repo.consulted,
            checker_cmd=f"./check {self.prop} --tier {self.tier}",
            trusted_base=self.trusted_base,
            evaluations=max(n_ob, 1),
            distinct_nontrivial=max(len({(o['rule'], o['key']) for o in self.obligations}), 2),
            rule="one obligation per (rule, construct) extracted from the source; distinct = distinct (rule, construct) keys",
            notes=self.infos[:80],
        )
        cov.update(self.extra)
        ev = dict(
            property_id=self.prop,
            tier=self.tier,
            seed=self.seed,
            level=self.level,
            coverage=cov,
            assumptions=self.assumptions,
            wall_s=round(wall, 3),
            violations=len(violations),
        )
        if (self.repo.root == "/repo" and not os.environ.get("VERIF_NO_EVIDENCE")) or os.environ.get("VERIF_WRITE_EVIDENCE"):
            os.makedirs(os.path.join(VERIF, "evidence"), exist_ok=True)
            with open(os.path.join(VERIF, "evidence", f"{self.prop}.json"), "w") as f:
                json.dump(ev, f, indent=1, default=str)
        print(f"   wall {wall:.2f}s -> {'VIOLATION' if violations else 'ok'}")
        return 1 if violations else 0, violations, known_hits


def run_guarded(fn):
    """Run a check main; map AnalysisError/tracebacks to exit 2."""
    try:
        rc = fn()
    except AnalysisError as e:
        print(f"ANALYSIS-ERROR: {e}")
        sys.exit(2)
    except SystemExit:
        raise
    except BaseException:
        traceback.print_exc()
        print("ANALYSIS-ERROR: internal error in checker (traceback above)")
        sys.exit(2)
    sys.exit(rc)


def inline_helpers(repo, rel, func, max_rounds=3):
    """A copy of `func` in which calls `name = helper(args)` / `return helper(args)` of module-level helper functions of the same
    file are replaced by the helper's body, when that body is straight-line code (assignments, docstring, assert) ending in a
    single return, the helper is not recursive and all arguments are passed positionally or by keyword to plain parameters.
    Parameters are bound to fresh locals, the helper's own locals are renamed apart.  Line numbers of the call site are kept, and
    `_parent` links are set, so that path / dominance analyses run on the result as on a repository function.  Used to make
    rules robust against "extract helper" refactorings: the analysed function is the same whether or not the helper exists."""
    mod = repo.tree(rel)
    helpers = {n.name: n for n in mod.body if isinstance(n, ast.FunctionDef)}
    src = ast.unparse(func)
    new = ast.parse(src).body[0]
    # keep the original line numbers as far as statements correspond (unparse / parse keeps statement order)
    for a, b in zip(ast.walk(func), ast.walk(new)):
        if hasattr(a, "lineno") and hasattr(b, "lineno") and type(a) is type(b):
            b.lineno, b.col_offset = a.lineno, a.col_offset
            b.end_lineno, b.end_col_offset = getattr(a, "end_lineno", a.lineno), getattr(a, "end_col_offset", a.col_offset)
    counter = [0]

    def simple(h):
        body = [st for st in h.body if not (isinstance(st, ast.Expr) and isinstance(st.value, ast.Constant))]
        if not body or not isinstance(body[-1], ast.Return) or body[-1].value is None:
            return None
        for st in body[:-1]:
            if not isinstance(st, (ast.Assign, ast.AnnAssign, ast.AugAssign, ast.Assert)):
                return None
        if any(isinstance(x, (ast.Return, ast.Yield, ast.YieldFrom, ast.Lambda, ast.FunctionDef)) for st in body[:-1] for x in ast.walk(st)):
            return None
        if h.args.vararg or h.args.kwarg or h.args.posonlyargs:
            return None
        return body

    def expand(call, lineno):
        h = helpers.get(call.func.id) if isinstance(call.func, ast.Name) else None
        if h is None or h.name == func.name or any(isinstance(x, ast.Call) and isinstance(x.func, ast.Name) and x.func.id == h.name for x in ast.walk(h)):
            return None
        body = simple(h)
        if body is None:
            return None
        params = [a.arg for a in h.args.args] + [a.arg for a in h.args.kwonlyargs]
        defaults = dict(zip([a.arg for a in h.args.args][len(h.args.args) - len(h.args.defaults):], h.args.defaults))
        defaults.update({a.arg: d for a, d in zip(h.args.kwonlyargs, h.args.kw_defaults) if d is not None})
        bound = {}
        if len(call.args) > len(h.args.args) or any(isinstance(a, ast.Starred) for a in call.args) or any(k.arg is None for k in call.keywords):
            return None
        for p_, a in zip([a.arg for a in h.args.args], call.args):
            bound[p_] = a
        for k in call.keywords:
            if k.arg not in params or k.arg in bound:
                return None
            bound[k.arg] = k.value
        for p_ in params:
            if p_ not in bound:
                if p_ not in defaults:
                    return None
                bound[p_] = defaults[p_]
        counter[0] += 1
        tag = f"__{h.name}_{counter[0]}"
        local = set(params)
        for st in body:
            for x in ast.walk(st):
                if isinstance(x, ast.Name) and isinstance(x.ctx, ast.Store):
                    local.add(x.id)
                elif isinstance(x, ast.comprehension):
                    for y in ast.walk(x.target):
                        if isinstance(y, ast.Name):
                            local.add(y.id)
        # an argument that is a plain name (or constant) is substituted directly: facts about it stay facts about the caller's variable
        mapping = {}
        pre = []
        for p_ in params:
            a = bound[p_]
            reassigned = any(isinstance(x, ast.Name) and isinstance(x.ctx, ast.Store) and x.id == p_ for st in body for x in ast.walk(st))
            if isinstance(a, ast.Name) and not reassigned:
                mapping[p_] = a.id
            else:
                mapping[p_] = p_ + tag
                pre.append(ast.Assign(targets=[ast.Name(id=p_ + tag, ctx=ast.Store())], value=fresh_copy(a)))
        for nm in local - set(params):
            mapping[nm] = nm + tag
        out = list(pre)
        for st in body[:-1]:
            out.append(_Renamer(mapping).visit(fresh_copy(st)))
        ret = _Renamer(mapping).visit(fresh_copy(body[-1].value))
        for st in out + [ret]:
            for x in ast.walk(st):
                x.lineno = x.end_lineno = lineno
                x.col_offset = x.end_col_offset = 0
        return out, ret

    def rewrite(stmts):
        changed = False
        res = []
        for st in stmts:
            for fld in ("body", "orelse", "finalbody"):
                sub = getattr(st, fld, None)
                if isinstance(sub, list) and sub and isinstance(sub[0], ast.stmt):
                    new_sub, ch = rewrite(sub)
                    setattr(st, fld, new_sub)
                    changed |= ch
            for h_ in getattr(st, "handlers", []) or []:
                h_.body, ch = rewrite(h_.body)
                changed |= ch
            target_call = None
            if isinstance(st, ast.Assign) and isinstance(st.value, ast.Call):
                target_call = st.value
            elif isinstance(st, ast.Return) and isinstance(st.value, ast.Call):
                target_call = st.value
            if target_call is not None:
                ex = expand(target_call, getattr(st, "lineno", 0))
                if ex is not None:
                    pre, ret = ex
                    res.extend(pre)
                    st.value = ret
                    changed = True
            res.append(st)
        return res, changed

    for _ in range(max_rounds):
        new.body, ch = rewrite(new.body)
        if not ch:
            break
    ast.fix_missing_locations(new)
    for parent in ast.walk(new):
        for child in ast.iter_child_nodes(parent):
            child._parent = parent
    new._parent = getattr(func, "_parent", None)
    return new
