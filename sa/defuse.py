"""Path-sensitive def-use: where does the value of an expression come from, along one path?

`origins(expr, events, idx)` substitutes backwards through the assignments that occur on
the path before position idx and returns the set of leaf sources:

   ('call', dotted_callee)   a call result (its arguments/receiver are followed too)
   ('name', id)              a name with no definition on the path (parameter, closure, global)
   ('attr', dotted)          an attribute chain with no store on the path (e.g. self.desired_state)
   ('const', repr)           a literal
"""

from __future__ import annotations

import ast

from .paths import dotted


def _targets(st):
    if isinstance(st, ast.Assign):
        for t in st.targets:
            yield t, st.value
    elif isinstance(st, ast.AnnAssign) and st.value is not None:
        yield st.target, st.value
    elif isinstance(st, ast.AugAssign):
        yield st.target, st  # value depends on both old target and st.value


def _flatten_target(t, v):
    """Yield (target_node, value_node) pairs, splitting tuple assignments when shapes agree."""
    if isinstance(t, (ast.Tuple, ast.List)):
        if isinstance(v, (ast.Tuple, ast.List)) and len(v.elts) == len(t.elts):
            for a, b in zip(t.elts, v.elts):
                yield from _flatten_target(a, b)
        else:
            for a in t.elts:
                yield from _flatten_target(a, v)
    else:
        yield t, v


def last_def(name_or_dotted, events, idx):
    """Return (index, value_node) of the last store to the name/dotted attr before idx, or None."""
    for i in range(idx - 1, -1, -1):
        e = events[i]
        if e.kind == "stmt":
            for t, v in _targets(e.node):
                for tt, vv in _flatten_target(t, v):
                    if dotted(tt) == name_or_dotted:
                        return i, vv
        elif e.kind == "iter":
            par = getattr(e.node, "_parent", None)
            if isinstance(par, (ast.For, ast.AsyncFor)):
                for tt, vv in _flatten_target(par.target, par.iter):
                    if dotted(tt) == name_or_dotted:
                        return i, vv
        elif e.kind == "with":
            for it in e.node.items:
                if it.optional_vars is not None and dotted(it.optional_vars) == name_or_dotted:
                    return i, it.context_expr
    return None


def origins(expr, events, idx, _depth=0):
    out = set()
    if _depth > 60:
        return {("name", "<depth>")}

    def go(n, at):
        if isinstance(n, ast.AugAssign):
            # old value of target + value
            d = dotted(n.target)
            ld = last_def(d, events, at) if d else None
            if ld:
                go(ld[1], ld[0])
            else:
                out.add(("name" if isinstance(n.target, ast.Name) else "attr", d))
            go(n.value, at)
            return
        if isinstance(n, ast.Constant):
            out.add(("const", repr(n.value)))
            return
        if isinstance(n, ast.Name):
            ld = last_def(n.id, events, at)
            if ld:
                go(ld[1], ld[0])
            else:
                out.add(("name", n.id))
            return
        if isinstance(n, ast.Attribute):
            d = dotted(n)
            ld = last_def(d, events, at) if d else None
            if ld:
                go(ld[1], ld[0])
                return
            # x.value where x is locally defined: follow x
            base = n
            while isinstance(base, ast.Attribute):
                base = base.value
            if isinstance(base, ast.Name) and last_def(base.id, events, at):
                go(n.value, at)
                return
            # follow prefixes that were stored on the path (self.saved_state.value -> self.saved_state)
            inner = n.value
            while isinstance(inner, ast.Attribute):
                di = dotted(inner)
                ldi = last_def(di, events, at) if di else None
                if ldi:
                    go(ldi[1], ldi[0])
                    return
                inner = inner.value
            out.add(("attr", d))
            if isinstance(base, ast.Name):
                out.add(("name", base.id))
            return
        if isinstance(n, ast.Call):
            out.add(("call", dotted(n.func) or "?"))
            if isinstance(n.func, ast.Attribute):
                go(n.func.value, at)
            for a in n.args:
                go(a.value if isinstance(a, ast.Starred) else a, at)
            for kw in n.keywords:
                go(kw.value, at)
            return
        for c in ast.iter_child_nodes(n):
            if isinstance(c, (ast.expr,)):
                go(c, at)

    go(expr, idx)
    return out
