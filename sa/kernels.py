"""Straight-line dataflow extraction for small arithmetic kernels + exact-algebra normal form.

`Extractor.call(rel, fname, args, kwargs)` interprets the *source* of a kernel symbolically:
inputs are opaque symbols, `+ - * /`, unary minus, abs, select and comparisons build terms,
boolean/None keyword flags are concrete so that `if fast:` takes one branch, calls to other
kernels of the package are inlined.  Nothing is evaluated numerically.

`normal(term)` is a canonical form under identities that are exact in IEEE-754
round-to-nearest arithmetic (up to the sign of an exactly cancelling sum, which cannot change
an error-free transformation's value):
    a - b = a + (-b);  + and * commutative;  (-a)*b = -(a*b);  -(a+b) = (-a)+(-b);
    -(-a) = a;  |−a| = |a|;  a > b  ==  b < a;  a >= b == b <= a.
"""

from __future__ import annotations

import ast

from .core import AnalysisError, norm_src
from .paths import dotted, call_name


class Unsupported(AnalysisError):
    pass


# --------------------------------------------------------------------------- terms


def IN(name):
    return ("in", name)


def CONST(text):
    return ("const", str(text))


def is_term(v):
    return isinstance(v, tuple) and v and isinstance(v[0], str) and v[0] in ("in", "const", "op", "neg", "abs", "select", "cmp", "opaque", "not", "and", "or", "fn")


def _num(v):
    return isinstance(v, (int, float)) and not isinstance(v, bool)


def lift(v):
    if is_term(v):
        return v
    if _num(v):
        return CONST(repr(v) if not (isinstance(v, float) and v == int(v)) else repr(int(v)))
    if isinstance(v, bool):
        return CONST(repr(v))
    raise Unsupported(f"cannot use {v!r} as an arithmetic operand")


# --------------------------------------------------------------------------- normal form: (sign, body)


def normal(t):
    s, b = _norm(t)
    return (s, b)


def _key(x):
    return repr(x)


def _norm(t):
    k = t[0]
    if k == "in":
        return 1, t
    if k == "const":
        txt = t[1]
        if txt.startswith("-"):
            return -1, ("const", txt[1:])
        return 1, t
    if k == "opaque":
        return 1, t
    if k == "neg":
        s, b = _norm(t[1])
        return -s, b
    if k == "abs":
        s, b = _norm(t[1])
        return 1, ("abs", b)
    if k == "fn":
        return 1, ("fn", t[1]) + tuple(_norm(a) for a in t[2:])
    if k == "op":
        sym = t[1]
        if sym in ("+", "-"):
            sa, ba = _norm(t[2])
            sb, bb = _norm(t[3])
            if sym == "-":
                sb = -sb
            items = []
            # no flattening: (a+b)+c and a+(b+c) round differently
            items = [(sa, ba), (sb, bb)]
            items.sort(key=lambda it: _key(it[1]))
            outer = 1
            if items[0][0] < 0:
                outer = -1
                items = [(-s, b) for s, b in items]
            return outer, ("sum", tuple(items))
        if sym == "*":
            sa, ba = _norm(t[2])
            sb, bb = _norm(t[3])
            items = sorted([ba, bb], key=_key)
            return sa * sb, ("prod", tuple(items))
        if sym == "/":
            sa, ba = _norm(t[2])
            sb, bb = _norm(t[3])
            return sa * sb, ("div", ba, bb)
        raise Unsupported(f"operator {sym}")
    if k == "select":
        c = _normcond(t[1])
        sa, ba = _norm(t[2])
        sb, bb = _norm(t[3])
        # select(c, -a, -b) = -select(c, a, b)
        if sa < 0 and (sb < 0 or bb == ("const", "0")):
            return -1, ("select", c, (1, ba), (-sb if bb != ("const", "0") else 1, bb))
        return 1, ("select", c, (sa, ba), (sb, bb))
    if k in ("cmp", "not", "and", "or"):
        return 1, _normcond(t)
    raise Unsupported(f"term kind {k}")


def _normcond(c):
    k = c[0]
    if k == "cmp":
        op, a, b = c[1], c[2], c[3]
        if op in (">", ">="):
            op, a, b = {">": "<", ">=": "<="}[op], b, a
        na, nb = _norm(a), _norm(b)
        if op in ("==", "!="):
            na, nb = sorted([na, nb], key=_key)
        return ("cmp", op, na, nb)
    if k == "not":
        return ("not", _normcond(c[1]))
    if k in ("and", "or"):
        return (k, tuple(sorted((_normcond(x) for x in c[1:]), key=_key)))
    if k == "const":
        return c
    return ("val", _norm(c))


def show(t, depth=0):
    k = t[0]
    if k == "in":
        return t[1]
    if k == "const":
        return t[1]
    if k == "opaque":
        return f"<{t[1]}>"
    if k == "neg":
        return f"-({show(t[1])})"
    if k == "abs":
        return f"|{show(t[1])}|"
    if k == "fn":
        return f"{t[1]}(" + ", ".join(show(a) for a in t[2:]) + ")"
    if k == "op":
        return f"({show(t[2])} {t[1]} {show(t[3])})"
    if k == "select":
        return f"select({show(t[1])}, {show(t[2])}, {show(t[3])})"
    if k == "cmp":
        return f"{show(t[2])} {t[1]} {show(t[3])}"
    if k == "not":
        return f"not {show(t[1])}"
    if k in ("and", "or"):
        return "(" + f" {k} ".join(show(x) for x in t[1:]) + ")"
    return repr(t)


# --------------------------------------------------------------------------- extractor


class ParamDict:
    def __init__(self, tag):
        self.tag = tag


class _LocalFunc:
    """a function defined inside the kernel being interpreted (closure over the defining environment)"""

    def __init__(self, node, env):
        self.node, self.env = node, env


class Extractor:
    def __init__(self, repo, module_alias=None, max_depth=12):
        self.repo = repo
        # qualified prefixes -> file
        self.alias = {
            "fpa": "floating_point_algorithms.py", "fa.utils": "utils.py", "utils": "utils.py",
            "fa.floating_point_algorithms": "floating_point_algorithms.py", "fa.apmath": "apmath.py",
        }
        if module_alias:
            self.alias.update(module_alias)
        self.max_depth = max_depth
        self.inlined = []

    # ---- entry
    def call(self, rel, fname, args, kwargs=None, depth=0):
        if depth > self.max_depth:
            raise Unsupported("inlining depth exceeded")
        f = self.repo.func(rel, fname)
        params = [a.arg for a in f.args.args]
        defaults = dict(zip(params[len(params) - len(f.args.defaults):], f.args.defaults))
        is_api = any((dotted(d.func) if isinstance(d, ast.Call) else dotted(d) or "").endswith("make_api") for d in f.decorator_list)
        env = {}
        pos = list(params)
        if is_api and "dtype" in pos:
            pos.remove("dtype")
            env["dtype"] = CONST("dtype")
        kwargs = dict(kwargs or {})
        for p, a in zip(pos, args):
            env[p] = a
        if len(args) > len(pos):
            raise Unsupported(f"{fname}: too many positional arguments")
        for k, v in kwargs.items():
            if k == "dtype":
                continue
            if k not in params:
                raise Unsupported(f"{fname}: unknown keyword {k}")
            env[k] = v
        for p in params:
            if p not in env:
                if p in defaults:
                    env[p] = self.eval(defaults[p], {}, rel, depth)
                else:
                    raise Unsupported(f"{fname}: parameter {p} not bound")
        self.inlined.append(f"{rel}::{fname}")
        status, val = self.block(f.body, env, rel, depth)
        if status != "return":
            raise Unsupported(f"{fname}: fell off the end without return")
        return val

    # ---- statements
    def block(self, stmts, env, rel, depth):
        for st in stmts:
            status, val = self.stmt(st, env, rel, depth)
            if status == "return":
                return status, val
        return "fall", None

    def stmt(self, st, env, rel, depth):
        if isinstance(st, ast.Return):
            return "return", (self.eval(st.value, env, rel, depth) if st.value is not None else None)
        if isinstance(st, ast.Assign):
            v = self.eval(st.value, env, rel, depth)
            for t in st.targets:
                self.bind(t, v, env)
            return "fall", None
        if isinstance(st, ast.AugAssign):
            cur = self.eval(st.target, env, rel, depth)
            v = self.eval(st.value, env, rel, depth)
            sym = {ast.Add: "+", ast.Sub: "-", ast.Mult: "*", ast.Div: "/"}.get(type(st.op))
            if sym is None:
                raise Unsupported(f"augmented {type(st.op).__name__}")
            self.bind(st.target, self.arith(sym, cur, v), env)
            return "fall", None
        if isinstance(st, ast.If):
            c = self.eval(st.test, env, rel, depth)
            if isinstance(c, (int, float, str, type(None))) and not isinstance(c, bool):
                c = bool(c)  # `if 0:` / `elif 1:` chains
            if not isinstance(c, bool):
                raise Unsupported(f"line {st.lineno}: branch on symbolic condition `{norm_src(st.test)}`")
            return self.block(st.body if c else st.orelse, env, rel, depth)
        if isinstance(st, ast.For):
            it = self.eval(st.iter, env, rel, depth)
            if not isinstance(it, (list, tuple, range)):
                raise Unsupported(f"line {st.lineno}: loop over symbolic iterable")
            for item in it:
                self.bind(st.target, item, env)
                status, val = self.block(st.body, env, rel, depth)
                if status == "return":
                    return status, val
            return "fall", None
        if isinstance(st, ast.Assert):
            c = None
            try:
                c = self.eval(st.test, env, rel, depth)
            except Unsupported:
                return "fall", None
            if c is False and not any(isinstance(x, ast.Call) for x in ast.walk(st.test)):
                raise Unsupported(f"line {st.lineno}: assertion `{norm_src(st.test)}` fails in this configuration")
            return "fall", None
        if isinstance(st, ast.Expr):
            if isinstance(st.value, ast.Constant):
                return "fall", None
            try:
                self.eval(st.value, env, rel, depth)
            except Unsupported:
                pass
            return "fall", None
        if isinstance(st, (ast.Pass, ast.Import, ast.ImportFrom)):
            return "fall", None
        if isinstance(st, ast.FunctionDef) and not st.decorator_list and not st.args.vararg and not st.args.kwarg:
            # a local helper: a closure over the enclosing environment, interpreted when it is called
            env[st.name] = _LocalFunc(st, env)
            return "fall", None
        raise Unsupported(f"line {st.lineno}: statement {type(st).__name__}")

    def bind(self, target, v, env):
        if isinstance(target, ast.Name):
            env[target.id] = v
        elif isinstance(target, (ast.Tuple, ast.List)):
            if not isinstance(v, (tuple, list)) or len(v) != len(target.elts):
                raise Unsupported(f"cannot unpack {v!r} into {norm_src(target)}")
            for t, x in zip(target.elts, v):
                self.bind(t, x, env)
        else:
            raise Unsupported(f"assignment target {norm_src(target)}")

    # ---- expressions
    def arith(self, sym, a, b):
        if _num(a) and _num(b):
            return {"+": a + b, "-": a - b, "*": a * b, "/": a / b if b else None}[sym]
        return ("op", sym, lift(a), lift(b))

    def eval(self, n, env, rel, depth):
        if isinstance(n, ast.Constant):
            return n.value
        if isinstance(n, ast.Name):
            if n.id in env:
                return env[n.id]
            if n.id in ("None", "True", "False"):
                return {"None": None, "True": True, "False": False}[n.id]
            return ("opaque", n.id)
        if isinstance(n, (ast.Tuple, ast.List)):
            vals = [self.eval(e, env, rel, depth) for e in n.elts]
            return tuple(vals) if isinstance(n, ast.Tuple) else vals
        if isinstance(n, ast.BinOp):
            a, b = self.eval(n.left, env, rel, depth), self.eval(n.right, env, rel, depth)
            sym = {ast.Add: "+", ast.Sub: "-", ast.Mult: "*", ast.Div: "/"}.get(type(n.op))
            if not is_term(a) and not is_term(b) and isinstance(a, (list, tuple)) and isinstance(b, (list, tuple)) and sym == "+":
                return list(a) + list(b)
            if sym is None:
                if _num(a) and _num(b):
                    import operator
                    fn = {ast.FloorDiv: operator.floordiv, ast.Pow: operator.pow, ast.Mod: operator.mod, ast.LShift: operator.lshift}.get(type(n.op))
                    if fn:
                        return fn(a, b)
                return ("opaque", norm_src(n))
            return self.arith(sym, a, b)
        if isinstance(n, ast.UnaryOp):
            v = self.eval(n.operand, env, rel, depth)
            if isinstance(n.op, ast.USub):
                if _num(v):
                    return -v
                return ("neg", lift(v))
            if isinstance(n.op, ast.UAdd):
                return v
            if isinstance(n.op, ast.Not):
                if isinstance(v, bool) or v is None:
                    return not v
                return ("not", v)
        if isinstance(n, ast.BoolOp):
            vals = [self.eval(v, env, rel, depth) for v in n.values]
            if all(isinstance(v, bool) or v is None for v in vals):
                return all(vals) if isinstance(n.op, ast.And) else any(vals)
            return ("and" if isinstance(n.op, ast.And) else "or", *[lift(v) if not is_term(v) else v for v in vals])
        if isinstance(n, ast.Compare) and len(n.ops) == 1:
            a, b = self.eval(n.left, env, rel, depth), self.eval(n.comparators[0], env, rel, depth)
            op = n.ops[0]
            if isinstance(op, (ast.Is, ast.IsNot)):
                if is_term(a) and is_term(b):
                    return ("opaque", norm_src(n))
                if is_term(a) or is_term(b):
                    res = False  # a symbolic value is never None/True/False
                else:
                    res = a is b
                return res if isinstance(op, ast.Is) else not res
            sym = {ast.Lt: "<", ast.LtE: "<=", ast.Gt: ">", ast.GtE: ">=", ast.Eq: "==", ast.NotEq: "!="}.get(type(op))
            if sym is None:
                raise Unsupported(f"comparison {type(op).__name__}")
            if not is_term(a) and not is_term(b):
                return {"<": a < b, "<=": a <= b, ">": a > b, ">=": a >= b, "==": a == b, "!=": a != b}[sym]
            return ("cmp", sym, lift(a), lift(b))
        if isinstance(n, ast.IfExp):
            c = self.eval(n.test, env, rel, depth)
            if isinstance(c, bool) or c is None:
                return self.eval(n.body if c else n.orelse, env, rel, depth)
            raise Unsupported(f"conditional expression on symbolic condition `{norm_src(n.test)}`")
        if isinstance(n, ast.Subscript):
            base = self.eval(n.value, env, rel, depth)
            if isinstance(base, ParamDict):
                key = self.eval(n.slice, env, rel, depth)
                return CONST(f"{key}")
            if isinstance(base, (list, tuple)):
                if isinstance(n.slice, ast.Slice):
                    lo = self.eval(n.slice.lower, env, rel, depth) if n.slice.lower else None
                    hi = self.eval(n.slice.upper, env, rel, depth) if n.slice.upper else None
                    return base[slice(lo, hi)]
                idx = self.eval(n.slice, env, rel, depth)
                if isinstance(idx, int):
                    return base[idx]
            return ("opaque", norm_src(n))
        if isinstance(n, ast.Starred):
            raise Unsupported("starred expression outside a call")
        if isinstance(n, ast.Attribute):
            return ("opaque", norm_src(n))
        if isinstance(n, ast.Call):
            return self.eval_call(n, env, rel, depth)
        if isinstance(n, ast.JoinedStr):
            return ("opaque", "fstring")
        raise Unsupported(f"expression {type(n).__name__}")

    def eval_call(self, n, env, rel, depth):
        fn = dotted(n.func) or ""
        last = fn.split(".")[-1]
        # x.reference(...) -> x
        if isinstance(n.func, ast.Attribute) and n.func.attr == "reference":
            return self.eval(n.func.value, env, rel, depth)
        args = []
        for a in n.args:
            if isinstance(a, ast.Starred):
                v = self.eval(a.value, env, rel, depth)
                if not isinstance(v, (list, tuple)):
                    raise Unsupported("star-argument of symbolic value")
                args.extend(v)
            else:
                args.append(self.eval(a, env, rel, depth))
        kwargs = {kw.arg: self.eval(kw.value, env, rel, depth) for kw in n.keywords if kw.arg}
        if isinstance(n.func, ast.Name) and isinstance(env.get(fn), _LocalFunc):
            lf = env[fn]
            if depth > self.max_depth:
                raise Unsupported("inlining depth exceeded")
            params = [a.arg for a in lf.node.args.args]
            defaults = dict(zip(params[len(params) - len(lf.node.args.defaults):], lf.node.args.defaults))
            if len(args) > len(params) or any(k not in params for k in kwargs):
                raise Unsupported(f"{fn}: arguments do not match the local helper")
            inner = dict(lf.env)
            inner.update(zip(params, args))
            inner.update(kwargs)
            for p_ in params:
                if p_ not in inner or (p_ not in dict(zip(params, args)) and p_ not in kwargs and p_ in defaults):
                    if p_ in defaults:
                        inner[p_] = self.eval(defaults[p_], lf.env, rel, depth)
                    elif p_ not in inner:
                        raise Unsupported(f"{fn}: parameter {p_} not bound")
            status, val = self.block(lf.node.body, inner, rel, depth + 1)
            if status != "return":
                return None
            return val
        if fn == "abs":
            return ("abs", lift(args[0]))
        if fn == "len" and isinstance(args[0], (list, tuple)):
            return len(args[0])
        if fn in ("list", "tuple") and args and isinstance(args[0], (list, tuple)):
            return list(args[0])
        if fn == "reversed" and isinstance(args[0], (list, tuple, range)):
            return list(reversed(args[0]))
        if fn == "range" and all(isinstance(a, int) for a in args):
            return range(*args)
        if fn == "hasattr":
            return False
        if fn == "isinstance":
            return ("opaque", norm_src(n))
        if last == "select" and fn.startswith("ctx") and len(args) == 3:
            c = args[0]
            if isinstance(c, bool):
                return args[1] if c else args[2]
            return ("select", c, lift(args[1]), lift(args[2]))
        if last in ("floor", "ceil", "sqrt", "round", "trunc") and fn.startswith("ctx") and len(args) == 1:
            return ("fn", last, lift(args[0]))
        if last in ("eq", "ne", "lt", "le", "gt", "ge") and fn.startswith("ctx") and len(args) == 2:
            return ("cmp", {"eq": "==", "ne": "!=", "lt": "<", "le": "<=", "gt": ">", "ge": ">="}[last], lift(args[0]), lift(args[1]))
        if last == "constant" and fn.startswith("ctx"):
            v = args[0]
            if _num(v):
                return lift(v)
            if isinstance(v, str):
                return CONST(v)
            if is_term(v):
                return v
            return CONST(norm_src(n.args[0]))
        if last in ("_assume_same_dtype",):
            return None
        if last == "get_largest":
            return CONST("largest")
        if last == "get_smallest":
            return CONST("smallest")
        if last == "_get_parameters":
            return ParamDict(norm_src(n.args[-1]))
        if last in ("get_precision", "get_maxexp"):
            return ("opaque", last)
        # type(x)(expr): a constant of the operand's type
        if isinstance(n.func, ast.Call) and dotted(n.func.func) == "type":
            v = args[0] if args else 0
            if _num(v):
                return lift(v)
            return CONST(norm_src(n.args[0]))
        # calls of other kernels
        target = None
        if "." not in fn and self.repo.has(rel, fn):
            target = (rel, fn)
        else:
            for pre, r2 in self.alias.items():
                if fn.startswith(pre + "."):
                    nm = fn[len(pre) + 1:]
                    if "." not in nm and self.repo.has(r2, nm):
                        target = (r2, nm)
        if target is not None:
            cargs = list(args)
            # kernels take ctx first when written for a context
            return self.call(target[0], target[1], cargs, kwargs, depth + 1)
        return ("opaque", norm_src(n))
