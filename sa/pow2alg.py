"""Exact symbolic algebra for bit-field decoders: values of the form  sum_i  c_i * m_i * 2^(E_i)

c_i rational, m_i a monomial in the field symbols (e.g. 'fpart', 'man'), E_i an integer-affine exponent in other field
symbols (e.g. 'epart', 'exp').  Supports + - *, 1 << k, 2 ** k, int(), and a final exact division by a single-term value.
"""

from __future__ import annotations

import ast
from fractions import Fraction

from .core import AnalysisError, norm_src
from .paths import dotted


class NotAlgebraic(Exception):
    pass


class Exp:
    """integer-affine exponent:  k + sum a_s * s"""

    __slots__ = ("c", "k")

    def __init__(self, c=None, k=0):
        self.c = {s: v for s, v in (c or {}).items() if v != 0}
        self.k = k

    def __add__(self, o):
        c = dict(self.c)
        for s, v in o.c.items():
            c[s] = c.get(s, 0) + v
        return Exp(c, self.k + o.k)

    def __neg__(self):
        return Exp({s: -v for s, v in self.c.items()}, -self.k)

    def key(self):
        return (tuple(sorted(self.c.items())), self.k)

    def __repr__(self):
        parts = [f"{v}*{s}" if v != 1 else s for s, v in sorted(self.c.items())]
        if self.k or not parts:
            parts.append(str(self.k))
        return "+".join(parts).replace("+-", "-")


class Val:
    """sum of terms: {(monomial tuple, exponent key): (coef Fraction, Exp)}"""

    def __init__(self, terms=None):
        self.t = {}
        for (mono, e), c in (terms or []):
            self._add(mono, e, c)

    def _add(self, mono, e, c):
        k = (mono, e.key())
        if k in self.t:
            c0, e0 = self.t[k]
            c = c0 + c
        if c == 0:
            self.t.pop(k, None)
        else:
            self.t[k] = (Fraction(c), e)

    @staticmethod
    def const(c):
        return Val([(((), Exp()), Fraction(c))]) if c != 0 else Val()

    @staticmethod
    def sym(name):
        return Val([((((name),), Exp()), Fraction(1))])

    @staticmethod
    def pow2(e):
        return Val([(((), e), Fraction(1))])

    def items(self):
        return [(mono, e, c) for (mono, _), (c, e) in self.t.items()]

    def __add__(self, o):
        r = Val()
        for mono, e, c in self.items() + o.items():
            r._add(mono, e, c)
        return r

    def __neg__(self):
        r = Val()
        for mono, e, c in self.items():
            r._add(mono, e, -c)
        return r

    def __sub__(self, o):
        return self + (-o)

    def __mul__(self, o):
        r = Val()
        for m1, e1, c1 in self.items():
            for m2, e2, c2 in o.items():
                r._add(tuple(sorted(m1 + m2)), e1 + e2, c1 * c2)
        return r

    def single(self):
        it = self.items()
        return it[0] if len(it) == 1 else None

    def divide(self, o):
        s = o.single()
        if s is None or s[0] != ():
            raise NotAlgebraic("division by a value that is not a single power-of-two term")
        _, e, c = s
        r = Val()
        for m1, e1, c1 in self.items():
            r._add(m1, e1 + (-e), c1 / c)
        return r

    def subst_exp(self, sym, value):
        """Replace an exponent symbol by an integer."""
        r = Val()
        for mono, e, c in self.items():
            k = e.k + e.c.get(sym, 0) * value
            r._add(mono, Exp({s_: v for s_, v in e.c.items() if s_ != sym}, k), c)
        return r

    def normal(self):
        """fold the constant part of every exponent into the coefficient (c * 2^(k + ...) -> (c*2^k) * 2^(...))."""
        r = {}
        for mono, e, c in self.items():
            key = (mono, tuple(sorted(e.c.items())))
            r[key] = r.get(key, 0) + c * Fraction(2) ** e.k
        return {k: v for k, v in r.items() if v != 0}

    def __eq__(self, o):
        return self.normal() == o.normal()

    def __repr__(self):
        return " + ".join(f"{c}*{'*'.join(m) or '1'}*2^({e})" for m, e, c in self.items()) or "0"


def as_exp(v):
    """A Val that is an integer-affine combination of symbols (coefficients integers, no powers of two) -> Exp."""
    e = Exp()
    for mono, ex, c in v.items():
        if ex.c or c.denominator != 1:
            raise NotAlgebraic(f"exponent {v!r} is not integer-affine")
        cc = int(c) * (2 ** ex.k if ex.k >= 0 else 0)
        if ex.k < 0:
            raise NotAlgebraic("fractional exponent")
        if mono == ():
            e = e + Exp({}, cc)
        elif len(mono) == 1:
            e = e + Exp({mono[0]: cc})
        else:
            raise NotAlgebraic("non-linear exponent")
    return e


def evaluate(node, env):
    """Evaluate an AST expression to a Val.  env: name/dotted -> Val."""
    if isinstance(node, ast.Constant) and isinstance(node.value, int) and not isinstance(node.value, bool):
        return Val.const(node.value)
    d = dotted(node)
    if d is not None and d in env:
        return env[d]
    if isinstance(node, ast.Call) and dotted(node.func) in ("int", "itype", "float") and len(node.args) == 1:
        return evaluate(node.args[0], env)
    if isinstance(node, ast.UnaryOp) and isinstance(node.op, ast.USub):
        return -evaluate(node.operand, env)
    if isinstance(node, ast.BinOp):
        if isinstance(node.op, ast.Add):
            return evaluate(node.left, env) + evaluate(node.right, env)
        if isinstance(node.op, ast.Sub):
            return evaluate(node.left, env) - evaluate(node.right, env)
        if isinstance(node.op, ast.Mult):
            return evaluate(node.left, env) * evaluate(node.right, env)
        if isinstance(node.op, ast.LShift):
            return evaluate(node.left, env) * Val.pow2(as_exp(evaluate(node.right, env)))
        if isinstance(node.op, ast.Pow):
            base = evaluate(node.left, env)
            if base == Val.const(2):
                return Val.pow2(as_exp(evaluate(node.right, env)))
    raise NotAlgebraic(f"`{norm_src(node)}` is outside the power-of-two algebra")
