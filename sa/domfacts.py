"""Dominating facts in structured code (no gotos): which conditions are known to hold at a statement?

For a node inside a function we collect, walking outwards:
  * tests of enclosing `if`/`elif`/`while` with the polarity of the branch the node sits in,
  * for every enclosing block, the statements textually before the node in that block that
    establish a fact for everything after them:  `assert T`  (T holds),
    `if T: <block ending in return/raise/continue/break>` without else  (not T holds).
A fact about a variable is dropped when the variable is (re)assigned between the fact and the node.
"""

from __future__ import annotations

import ast


def _terminates(block):
    if not block:
        return False
    last = block[-1]
    if isinstance(last, (ast.Return, ast.Raise, ast.Continue, ast.Break)):
        return True
    if isinstance(last, ast.If) and last.orelse:
        return _terminates(last.body) and _terminates(last.orelse)
    return False


def _assigned_names(nodes):
    out = set()
    for n in nodes:
        for x in ast.walk(n):
            if isinstance(x, ast.Name) and isinstance(x.ctx, (ast.Store, ast.Del)):
                out.add(x.id)
            elif isinstance(x, ast.AugAssign) and isinstance(x.target, ast.Name):
                out.add(x.target.id)
    return out


def dominating_facts(node, func):
    """Return list of (test_node, polarity, killed_names) from innermost to outermost.

    killed_names: names assigned between the fact and the node (the fact is unusable for them)."""
    facts = []
    cur = node
    assigned_after = set()
    while cur is not func and cur is not None:
        par = getattr(cur, "_parent", None)
        if par is None:
            break
        for field in ("body", "orelse", "finalbody", "handlers"):
            blk = getattr(par, field, None)
            if isinstance(blk, list) and cur in blk:
                idx = blk.index(cur)
                # statements before cur in this block, nearest first
                for j in range(idx - 1, -1, -1):
                    st = blk[j]
                    if isinstance(st, ast.Assert):
                        facts.append((st.test, True, set(assigned_after)))
                    elif isinstance(st, ast.If) and not st.orelse and _terminates(st.body):
                        facts.append((st.test, False, set(assigned_after)))
                    elif isinstance(st, ast.If) and st.orelse and _terminates(st.body) and not _terminates(st.orelse):
                        facts.append((st.test, False, set(assigned_after) | _assigned_names(st.orelse)))
                    assigned_after |= _assigned_names([st])
                if isinstance(par, (ast.If, ast.While)) and field in ("body", "orelse"):
                    pol = field == "body"
                    if isinstance(par, ast.While) and not pol:
                        pass
                    else:
                        facts.append((par.test, pol, set(assigned_after)))
                break
        cur = par
    return facts
