#!/usr/bin/env python3
"""Run the repository's pinned test suite (command from /root/.vp/BASELINE.json) and
compare with the stable-pass list.  Usage: run_baseline.py [--jobs N] [--repo DIR] [-k EXPR]
Exit 0 iff every stable-pass test passed."""
import argparse, json, os, subprocess, sys, tempfile, xml.etree.ElementTree as ET

ap = argparse.ArgumentParser()
ap.add_argument("--jobs", type=int, default=0)
ap.add_argument("--repo", default="/repo")
ap.add_argument("-k", default=None)
ap.add_argument("paths", nargs="*")
a = ap.parse_args()
base = json.load(open("/root/.vp/BASELINE.json"))
fd, xml = tempfile.mkstemp(suffix=".xml", prefix="fa-junit-"); os.close(fd)
cmd = ["/venv/bin/python", "-m", "pytest", "-q", "-p", "no:cacheprovider", "--timeout=900",
       "--continue-on-collection-errors", f"--junitxml={xml}"]
if a.jobs:
    cmd += ["-n", str(a.jobs)]
if a.k:
    cmd += ["-k", a.k]
cmd += a.paths
env = dict(os.environ)
p = subprocess.run(cmd, cwd=a.repo, env=env, stdout=subprocess.PIPE, stderr=subprocess.STDOUT, text=True)
print("\n".join(p.stdout.splitlines()[-5:]))
passed = set()
failed = set()
for tc in ET.parse(xml).getroot().iter("testcase"):
    name = f"{tc.get('classname')}::{tc.get('name')}"
    bad = [c.tag for c in tc if c.tag in ("failure", "error")]
    skipped = [c.tag for c in tc if c.tag == "skipped"]
    if bad:
        failed.add(name)
    elif not skipped:
        passed.add(name)
os.unlink(xml)
stable = set(base["stable_pass"])
selected = stable if not (a.k or a.paths) else {s for s in stable if s in passed | failed}
missing = sorted(selected - passed)
print(f"stable_pass={len(stable)} considered={len(selected)} passed_now={len(passed)} failed_now={len(failed)} stable_not_passing={len(missing)}")
for m in missing[:40]:
    print("  NOT PASSING:", m)
sys.exit(1 if missing else 0)
