#!/bin/sh
# confirm_all.sh [JOBS]: confirm, one after the other, every seed under /verif/seeded that has no finished confirm.log yet.
JOBS="${1:-6}"
for sd in /verif/seeded/*/; do
  sd="${sd%/}"
  [ -f "$sd/patch.diff" ] || continue
  if [ -f "$sd/confirm.log" ] && grep -q "^SUMMARY" "$sd/confirm.log" && grep -q "^stable_pass" "$sd/confirm.log"; then continue; fi
  # a seed whose meta says it applies to a parent commit only is confirmed by hand
  if grep -q '"applies_to"' "$sd/meta.json" 2>/dev/null; then continue; fi
  JOBS="$JOBS" /verif/tools/confirm_seed.sh "$sd" > /dev/null 2>&1
done
echo ALLDONE
