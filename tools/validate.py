#!/usr/bin/env python3-vt
import json, jsonschema, glob, sys
m = json.load(open('/verif/MANIFEST.json'))
jsonschema.validate(m, json.load(open('/root/.vp/MANIFEST.schema.json')))
es = json.load(open('/root/.vp/EVIDENCE.schema.json'))
bad = 0
for c in m['checks']:
    try:
        e = json.load(open(c['evidence_file']))
        jsonschema.validate(e, es)
        assert e['level'] == c['level_claimed']['category'], (e['level'], c['level_claimed']['category'])
    except Exception as ex:
        bad += 1
        print("EVIDENCE PROBLEM", c['property_id'], str(ex)[:300])
props = [json.loads(l)['id'] for l in open('/verif/properties.jsonl')]
claimed = {c['property_id'] for c in m['checks']}
na = {x['property_id'] for x in m.get('not_applicable', [])}
assert claimed | na == set(props) and not (claimed & na), (sorted(set(props) - claimed - na), sorted(claimed & na))
print("manifest ok; claimed", len(claimed), "n/a", len(na), "evidence problems", bad)
sys.exit(1 if bad else 0)
