#!/usr/bin/env python3
"""Print the prompt for a seeding sub-agent: property text + scratch worktree path only."""
import json, sys
pid, wt = sys.argv[1], sys.argv[2]
extra = sys.argv[3] if len(sys.argv) > 3 else ""
p = next(json.loads(l) for l in open('/verif/properties.jsonl') if json.loads(l)['id'] == pid)
print(f"""You are helping to evaluate a verification effort for the Python package pearu/functional_algorithms (a tracer / expression IR / rewriter / multi-target code generator for math functions). You get ONE semantic property of the package and your own scratch git worktree of its repository. Your job: craft a realistic, subtle change to the package's source that BREAKS this property while the package still imports and the existing test suite still passes, plus a small demonstration program that exposes the breakage.

Your scratch worktree (a git worktree, work ONLY inside it): {wt}
Do not read or write anything under /repo or /verif. Do not edit test files. Python to use: /venv/bin/python (run it with the worktree as the current directory so that `import functional_algorithms` picks up your copy; check with `/venv/bin/python -c "import functional_algorithms as f; print(f.__file__)"`).

The property ({p['id']}: {p['title']}):
{p['statement']}

It is quantified over: {p['quantifier']['text']}
Files most relevant to it: {', '.join(p['anchors']['files'])}

Requirements for the change:
- It must be a plausible maintenance edit or bug (an off-by-one, a swapped operand, a wrong constant, a dropped case, a table cell, a missing step, a condition that is slightly too wide/narrow, two sites that each look fine alone ...), NOT an obviously malicious or syntactically weird edit, and small (a few lines).
- It must need something specific to manifest: an unusual input, a particular combination of options or dtypes, a multi-step sequence of operations, a particular nesting or history — something ordinary use and the existing tests would not expose at once. {extra}
- The package must still import, and the existing test suite must still pass: on the unmodified tree exactly these 3 tests fail and nothing else: test_functional_algorithms.py::test_myhypot_xla_client, ::test_myhypot_cpp, ::test_safe_min_xla_client; with your change the set of failing tests must be the same. The full suite takes long; run it as
    cd {wt} && /venv/bin/python -m pytest -q -p no:cacheprovider --timeout=900 --continue-on-collection-errors -n 4 -x --deselect functional_algorithms/tests/test_functional_algorithms.py::test_myhypot_xla_client --deselect functional_algorithms/tests/test_functional_algorithms.py::test_myhypot_cpp --deselect functional_algorithms/tests/test_functional_algorithms.py::test_safe_min_xla_client
  (about 10-15 minutes; run the test files closest to your change first, the full suite once at the end). If a test fails, pick a different change.
- Write a demonstration {wt}/demo.py: a standalone script (run as `cd <tree> && /venv/bin/python demo.py`) that exits 0 and prints PASS when the property holds on what it exercises, and exits 1 printing FAIL with the offending input/sequence when it does not. It must FAIL with your change and PASS on the unmodified tree (check both WITHOUT `git stash` -- the stash is shared between worktrees of other people working in parallel: use `git diff > patch.diff && git apply -R patch.diff`, run the demo, then `git apply patch.diff`).
- Leave the change uncommitted in the worktree (so `git diff` shows it), and also write it to {wt}/patch.diff with `git diff > patch.diff` (only package source files in the diff, not demo.py).

When done, reply with: (1) the one-paragraph description of the change and why it breaks the property, (2) what is needed for it to manifest, (3) the exact commands you ran and their outcomes (test suite result with the change, demo with and without the change). Be honest if something could not be achieved.""")
