#!/usr/bin/env python3
"""replay_seeds.py [JOBS] [--skip C01,C02]: regression of the stored property-breaking patches (/verif/seeded/*/patch.diff).

Each patch is applied to a scratch copy of /repo/functional_algorithms (outside /repo and /verif, removed at once) and the quick
check of the property it breaks is run with --repo <copy>; it must exit 1 with a VIOLATION line.  Seeds whose meta.json says they
apply to a parent commit only are skipped."""
import concurrent.futures as cf
import glob
import json
import os
import shutil
import subprocess
import sys
import tempfile

VERIF = os.path.dirname(os.path.dirname(os.path.abspath(__file__)))


def run(sd):
    meta = json.load(open(os.path.join(sd, "meta.json")))
    if "applies_to" in meta:
        return sd, "skipped", "applies to a parent commit"
    prop = meta["property"]
    tmp = tempfile.mkdtemp(prefix="fa-seed-")
    try:
        shutil.copytree("/repo/functional_algorithms", os.path.join(tmp, "functional_algorithms"),
                        ignore=lambda d, names: [n for n in names if n == "__pycache__" or n.endswith(".pyc")])
        p = subprocess.run(["git", "apply", "--unsafe-paths", f"--directory={tmp}", os.path.join(sd, "patch.diff")], cwd="/",
                           stdout=subprocess.PIPE, stderr=subprocess.STDOUT, text=True)
        if p.returncode != 0:
            return sd, "noapply", p.stdout[-200:]
        env = dict(os.environ, VERIF_NO_EVIDENCE="1", VERIF_JOBS="4")
        q = subprocess.run([os.path.join(VERIF, "check"), prop, "--tier", "quick", "--repo", tmp, "--no-selftest"], cwd=VERIF, env=env,
                           stdout=subprocess.PIPE, stderr=subprocess.STDOUT, text=True, timeout=7200)
        rules = sorted({l.split()[1] for l in q.stdout.splitlines() if l.strip().startswith("VIOLATED")})
        ok = q.returncode == 1 and "VIOLATION property=" + prop in q.stdout
        return sd, "detected" if ok else f"MISSED rc={q.returncode}", " ".join(rules)
    finally:
        shutil.rmtree(tmp, ignore_errors=True)


def main():
    args = [a for a in sys.argv[1:] if not a.startswith("--")]
    skip = set()
    for a in sys.argv[1:]:
        if a.startswith("--skip"):
            skip = set(a.split("=", 1)[1].split(",")) if "=" in a else set()
    jobs = int(args[0]) if args else 4
    seeds = sorted(d for d in glob.glob(os.path.join(VERIF, "seeded", "*")) if os.path.exists(os.path.join(d, "patch.diff")) and os.path.exists(os.path.join(d, "meta.json")))
    seeds = [d for d in seeds if json.load(open(os.path.join(d, "meta.json")))["property"] not in skip]
    nbad = 0
    with cf.ThreadPoolExecutor(jobs) as ex:
        for sd, status, info in ex.map(run, seeds):
            if status.startswith(("MISSED", "noapply")):
                nbad += 1
            print(f"{status:10s} {os.path.basename(sd)} {info}", flush=True)
    print(f"REPLAY-SEEDS: {len(seeds)} seeds, {nbad} not detected")
    sys.exit(1 if nbad else 0)


if __name__ == "__main__":
    main()
