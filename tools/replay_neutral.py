#!/usr/bin/env python3
"""replay_neutral.py [JOBS] [--heavy]: regression of the stored behaviour-preserving patches (/verif/neutral/*/neutral_*.diff).

Each patch is applied to a scratch copy of /repo/functional_algorithms (outside /repo and /verif, removed at once) and the quick
checks of the properties anchored in the files it touches are run with --repo <copy>; every one must exit 0.  The checks of C01,
C02 and C03 (minutes each) are run only with --heavy, and only for patches that touch the algorithm definitions."""
import concurrent.futures as cf
import glob
import os
import re
import shutil
import subprocess
import sys
import tempfile

VERIF = os.path.dirname(os.path.dirname(os.path.abspath(__file__)))
BY_FILE = {
    "floating_point_algorithms.py": ["C10", "C11", "C12", "C17"],
    "algorithms.py": ["C03"],
    "utils.py": ["C09", "C13", "C14", "C15", "C17", "C19"],
    "expr.py": ["C04", "C05", "C06", "C07", "C08", "C09"],
    "context.py": ["C05", "C07", "C09", "C15"],
    "rewrite.py": ["C04"],
    "typesystem.py": ["C07", "C08"],
    "polynomial.py": ["C16"],
    "apmath.py": ["C10", "C11", "C12"],
    "apmath_algorithms.py": ["C10", "C11", "C12"],
    "fpu.py": ["C18"],
    "targets/": ["C05", "C06", "C09"],
}
HEAVY = {"algorithms.py": ["C01", "C02"], "floating_point_algorithms.py": ["C01", "C02"]}


def props_for(diff, heavy):
    out = []
    for m in re.finditer(r"^\+\+\+ b/functional_algorithms/(\S+)", open(diff).read(), re.M):
        rel = m.group(1)
        for k, v in BY_FILE.items():
            if rel == k or (k.endswith("/") and rel.startswith(k)):
                out += v
        if heavy:
            out += HEAVY.get(rel, [])
    return sorted(set(out))


def run(diff, heavy):
    tmp = tempfile.mkdtemp(prefix="fa-neutral-")
    try:
        shutil.copytree("/repo/functional_algorithms", os.path.join(tmp, "functional_algorithms"),
                        ignore=lambda d, names: [n for n in names if n == "__pycache__" or n.endswith(".pyc")])
        p = subprocess.run(["git", "apply", "--unsafe-paths", f"--directory={tmp}", diff], cwd="/", stdout=subprocess.PIPE, stderr=subprocess.STDOUT, text=True)
        if p.returncode != 0:
            p = subprocess.run(["patch", "-p1", "-s", "-i", diff], cwd=tmp, stdout=subprocess.PIPE, stderr=subprocess.STDOUT, text=True)
            if p.returncode != 0:
                return diff, [("apply", 3, p.stdout[-300:])]
        res = []
        env = dict(os.environ, VERIF_NO_EVIDENCE="1", VERIF_JOBS="4")
        for prop in props_for(diff, heavy):
            q = subprocess.run([os.path.join(VERIF, "check"), prop, "--tier", "quick", "--repo", tmp, "--no-selftest"], cwd=VERIF, env=env,
                               stdout=subprocess.PIPE, stderr=subprocess.STDOUT, text=True, timeout=7200)
            if q.returncode != 0:
                bad = [l for l in q.stdout.splitlines() if "VIOLATED" in l or "ANALYSIS-ERROR" in l][:3]
                res.append((prop, q.returncode, " | ".join(b.strip()[:220] for b in bad)))
        return diff, res
    finally:
        shutil.rmtree(tmp, ignore_errors=True)


def main():
    args = [a for a in sys.argv[1:] if not a.startswith("--")]
    heavy = "--heavy" in sys.argv
    jobs = int(args[0]) if args else 4
    diffs = sorted(glob.glob(os.path.join(VERIF, "neutral", "*", "neutral_*.diff")))
    nbad = 0
    with cf.ThreadPoolExecutor(jobs) as ex:
        for diff, res in ex.map(lambda d: run(d, heavy), diffs):
            tag = os.path.relpath(diff, os.path.join(VERIF, "neutral"))
            if res:
                nbad += 1
                for prop, rc, why in res:
                    print(f"ALARM {tag}: {prop} rc={rc} {why}", flush=True)
            else:
                print(f"silent {tag} [{' '.join(props_for(diff, heavy))}]", flush=True)
    print(f"REPLAY-NEUTRAL: {len(diffs)} patches, {nbad} with an alarm")
    sys.exit(1 if nbad else 0)


if __name__ == "__main__":
    main()
