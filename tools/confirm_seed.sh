#!/bin/sh
# confirm_seed.sh <seed-dir> : confirm a seeded change in a scratch worktree of /repo HEAD.
# expects <seed-dir>/patch.diff and <seed-dir>/demo.py ; writes <seed-dir>/confirm.log
SD="$1"; ID="$(basename "$SD")"
WT="/tmp/confirm/$ID"
mkdir -p /tmp/confirm
git -C /repo worktree remove --force "$WT" 2>/dev/null
git -C /repo worktree add -q --detach "$WT" HEAD || exit 2
LOG="$SD/confirm.log"
{
echo "== confirm $ID on /repo HEAD $(git -C /repo rev-parse --short HEAD)"
cd "$WT" || exit 2
cp "$SD/demo.py" demo.py
echo "-- demo on unmodified tree (expect PASS / rc 0)"
/venv/bin/python demo.py > /tmp/confirm/$ID.demo0.txt 2>&1; RC0=$?; tail -3 /tmp/confirm/$ID.demo0.txt; echo "rc=$RC0"
echo "-- apply patch"
git apply "$SD/patch.diff" || { echo "PATCH DOES NOT APPLY"; exit 3; }
git diff --stat
/venv/bin/python -c "import functional_algorithms" > /dev/null 2>&1 && echo "import ok" || echo "IMPORT FAILS"
echo "-- demo with change (expect FAIL / rc 1)"
/venv/bin/python demo.py > /tmp/confirm/$ID.demo1.txt 2>&1; RC1=$?; tail -5 /tmp/confirm/$ID.demo1.txt; echo "rc=$RC1"
echo "-- full suite with change"
python3 /verif/tools/run_baseline.py --jobs ${JOBS:-12} --repo "$WT" | tail -12; RCS=$?
echo "SUMMARY demo_without=$RC0 demo_with=$RC1"
} > "$LOG" 2>&1
cd /
git -C /repo worktree remove --force "$WT"
rm -f /tmp/confirm/$ID.demo0.txt /tmp/confirm/$ID.demo1.txt
tail -4 "$LOG"
