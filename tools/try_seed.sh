#!/bin/sh
# try_seed.sh <seed-dir> <prop> [tier]: apply the seeded patch to /repo, run the check, undo.
SD="$1"; P="$2"; T="${3:-quick}"
cd /repo || exit 2
git diff --quiet || { echo "/repo has uncommitted changes; refusing"; exit 2; }
git apply "$SD/patch.diff" || { echo "PATCH DOES NOT APPLY"; exit 3; }
cd /verif
VERIF_NO_EVIDENCE=1 ./check "$P" --tier "$T" --no-selftest > /tmp/try_seed.$$.txt 2>&1; RC=$?
git -C /repo checkout -- .
grep -E "VIOLATED|VIOLATION|ANALYSIS-ERROR" -A1 /tmp/try_seed.$$.txt | head -12
echo "exit=$RC"
rm -f /tmp/try_seed.$$.txt
