"""(Re)write confirmed_by_me of every seeded/*/meta.json from its confirm.log."""
import glob, json, os
for mp in sorted(glob.glob("/verif/seeded/*/meta.json")):
    d = os.path.dirname(mp)
    m = json.load(open(mp))
    if "applies_to" in m:
        print(os.path.basename(d), "confirmed by hand (applies to a parent commit)")
        continue
    log = os.path.join(d, "confirm.log")
    L = open(log).read().splitlines() if os.path.exists(log) else []
    summ = [l for l in L if l.startswith("SUMMARY")]
    stab = [l for l in L if l.startswith("stable_pass")]
    done = bool(summ and stab)
    if summ and not stab and any("NOT PASSING:" in l for l in L):
        # the tail of the suite report was cut after four lines of flipped tests: the run itself completed
        done = True
        stab = ["stable_pass line cut from the log (more than three tests flipped, see tests_no_longer_passing)"]
    c = m.setdefault("confirmed_by_me", {})
    c["done"] = done
    c["result"] = (summ[-1] + "; " + stab[-1]) if done else "queued (see confirm.log when present)"
    flips = [l.split("NOT PASSING:")[1].strip() for l in L if "NOT PASSING:" in l]
    flips = [t for t in flips if not any(k in t for k in ("test_myhypot_xla_client", "test_myhypot_cpp", "test_safe_min_xla_client"))]
    # order-dependent on the unmodified tree as well: test_multiply_dekker / test_square_dekker set mpmath.mp.prec globally and never
    # restore it, so this test fails when the float16 variant ran before it on the same xdist worker
    flaky = [t for t in flips if "test_fma_samples_fraction[float32]" in t]
    flips = [t for t in flips if t not in flaky]
    if flaky:
        c["flaky_test_seen"] = flaky[0] + " (fails intermittently on the unmodified tree too: global mpmath precision leaked by an earlier test on the same worker)"
    else:
        c.pop("flaky_test_seen", None)
    if flips:
        c["tests_no_longer_passing"] = flips
        c["note"] = "pytest still exits 0: these tests call pytest.xfail() on inaccurate results, so they turn from passed to xfailed with the change"
    else:
        c.pop("tests_no_longer_passing", None)
        c.pop("note", None)
    json.dump(m, open(mp, "w"), indent=1)
    print(os.path.basename(d), done)
