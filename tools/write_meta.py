"""(Re)write confirmed_by_me of every seeded/*/meta.json from its confirm.log."""
import glob, json, os
for mp in sorted(glob.glob("/verif/seeded/*/meta.json")):
    d = os.path.dirname(mp)
    m = json.load(open(mp))
    if "applies_to" in m:
        print(os.path.basename(d), "confirmed by hand (applies to a parent commit)")
        continue
    log = os.path.join(d, "confirm.log")
    L = open(log).read().splitlines() if os.path.exists(log) else []
    summ = [l for l in L if l.startswith("SUMMARY")]
    stab = [l for l in L if l.startswith("stable_pass")]
    done = bool(summ and stab)
    c = m.setdefault("confirmed_by_me", {})
    c["done"] = done
    c["result"] = (summ[-1] + "; " + stab[-1]) if done else "queued (see confirm.log when present)"
    json.dump(m, open(mp, "w"), indent=1)
    print(os.path.basename(d), done)
