# executed by gen_manifest.py
claim("C05", "other",
      "Decides structural necessary conditions of C05: every python/numpy/cpp template parses in its language, uses exactly its operands, computes its kind (operator identity and operand order against an oracle), calls only bound names; named constants/types/literal typing; the generic printer's assign-once-before-use typestate and reference-name registration on every statement path. Does not execute emitted code.",
      "trusted: Python ast, oracle tables in sa/oracles/targets.py, math/numpy namespaces, libstdc++ headers; not decided: bit-equality of execution on inputs",
      "custom AST checker: table evaluation + template parsing + path enumeration/def-use", "DESIGN.md §3/C05")
claim("C06", "other",
      "Decides structural necessary conditions of C06: stablehlo/xla_client operator tables against an op-name oracle (arity, order, identity), StableHLO printer structure (operand loops, comparison direction from kind, bind-once-before-use), constants and their like operand.",
      "trusted: hand-authored StableHLO/CHLO/XLA name oracle (not checkable offline); not decided: parse-back isomorphism for arbitrary graphs",
      "custom AST checker: table evaluation + path enumeration over the printers", "DESIGN.md §3/C06")
claim("C18", "other",
      "Decides on every statement path of the context manager: restore-on-exit, save-before-set, read-modify-write locality, mask bits vs MXCSR layout (symbolic per-path bit sets), reader/writer agreement, machine-code blob slots.",
      "trusted: MXCSR layout and instruction encodings from the Intel SDM; not decided: hardware behaviour, threads",
      "typestate / path enumeration + def-use + constant evaluation of masks and byte blobs", "DESIGN.md §3/C18")
claim("C07", "other",
      "Decides structural necessary conditions of sound hash-consing: registration key injective in kind, operands (in order), constant value encoding incl. sign of zero, value type and like key; Expr.__new__ exits only through registration; one table writer on the miss path, none on the hit path; Type hash/eq consistency.",
      "trusted: Python tuple hash/eq semantics; not decided: cross-context or concurrent use",
      "custom AST checker + path enumeration over Expr.__new__/_register_expression", "DESIGN.md §3/C07")
claim("C09", "other",
      "Decides absence of the constructs that make generated text depend on hash seed or process history: iteration/pick over set-typed values (package-wide set/dict-of-set inference) with an order-sensitive consumer; run-time mutated module/class/default-argument objects flowing (def-use taint) into expression/name constructors; id()/hash() orderings.",
      "trusted: syntactic set-type inference (sources listed in evidence); not decided: equality of generated text across runs",
      "dataflow/taint analysis over the AST (set-type inference, global-mutable-state to sink)", "DESIGN.md §3/C09")
claim("C11", "other",
      "Thin: constants of is_power_of_two / is_one_or_three_times_power_of_two are evaluated at every definition site per format under a model of numpy.finfo (roles by return position / dict key, never by local spelling) and compared with the documented formulas; the test kernel is extracted as dataflow and must be (P*x - Q*x) == x (!= iff invert); next(): multiplier 1 - 2**-p per format and direction of the step decided by evaluating the selected arm; guarded Dekker product behind the FMA variants. ULP bounds of 3Sum/4Sum/dot2/FMA are not decided.",
      "trusted: formulas from Graillat-Muller; IEEE-754 parameters; only the named constants and kernels are decided",
      "constant evaluation over the AST under a finfo model; symbolic dataflow extraction with normal forms", "DESIGN.md §3/C11")
claim("C13", "other",
      "Partial: (a) every literal format table keyed by numpy.float16/32/64 in utils.py and the mpmath backend's precision/exponent tables against IEEE-754 binary16/32/64 and each other; (b) float2fraction's numpy.floating branch is interpreted on an abstract float whose bit pattern is the field list [fraction|exponent|sign] with symbolic field values: on every feasible path denoting a finite value num/denom equals the IEEE value identically in the field symbols, i.e. exactness for every finite bit pattern of every format; (c) float2mpf interpreted on a symbolic frexp result: man*2**exp == mantissa*2**exponent and normalisation to the float's own precision; (d) expansion/float conversions keep the target dtype. mpmath's own arithmetic and fraction2float's rounding are not decided.",
      "trusted: IEEE-754 parameters, numpy's integer view of the bit pattern, Python big-integer arithmetic; not decided: rounding in the inverse direction",
      "abstract interpretation of the function's AST over symbolic bit fields, a path-sensitive linear-inequality domain (Fourier-Motzkin entailment) and an exact power-of-two algebra; constant evaluation of tables", "DESIGN.md §3/C13")
claim("C15", "other",
      "Partial: sentinel (UNSPECIFIED) resolution yields the caller's value or the default and never the sentinel; no possibly-unspecified option reaches a truth test or attribute; extra-precision options are applied by backend_context and all backend evaluations run inside it; mpf2float's tables and flush-keyed threshold, signed underflow/overflow results, and on every path the underflow/overflow tests read the exponent and bit count of the value rounded to the target precision. Rounding of values is not decided.",
      "trusted: IEEE-754 parameters; not decided: numeric rounding behaviour of mpf2float",
      "custom AST checker: conditional-expression shapes, dominance of resolution over truth tests, with-block containment", "DESIGN.md §3/C15")
claim("C16", "other",
      "Partial: on every returning statement path of each polynomial evaluator the coefficient indices read, iterated or delegated (intervals affine in the length) partition [0, len) exactly; exponent bookkeeping of fast_exponent_by_squaring and of the split recombination; agreement of the duplicated implementations.",
      "trusted: induction hypothesis for recursive/sibling calls on slices; not decided: the rest of the arithmetic, multiply/add/divmod/taylorat algebra",
      "path enumeration + symbolic (affine) index-interval coverage", "DESIGN.md §3/C16")
claim("C17", "other",
      "Thin: the dataflow of argument_reduction_exponent is extracted symbolically (constants function inlined): k = floor(x*INV + 1/2), r = x - k*HI, c = -(k*LO) as normal forms, where INV/HI/LO are whatever constants occupy those places; per format (dtype switch resolved) |HI+LO-ln2| <= ulp(LO)/2, HI short enough for exact k*HI, INV and the returned scalars correctly rounded, in exact rational arithmetic. Reconstruction bounds on inputs and the trigonometric reduction are not decided.",
      "trusted: ln 2 and 1/ln 2 to 100 digits; only the named constants and the formula are decided",
      "symbolic dataflow extraction with normal forms; constant evaluation in exact rational arithmetic", "DESIGN.md §3/C17")
claim("C19", "other",
      "Partial: interval analysis of the sample count at every `// (num-1)` divisor and negative index of real_samples from dominating facts; no path that avoids the include_subnormal bound adjustment returns a value built from the bounds; product generators forward every shared option and axis k's size/bounds to the k-th inner call. Properties of returned arrays are not decided.",
      "trusted: dominance in structured code; 4 known findings (unguarded divisors/index) are listed in known_findings.json",
      "interval analysis over dominating conditions; path enumeration with def-use (must-pass-through); call-site argument forwarding check", "DESIGN.md §3/C19")
claim("C10", "other",
      "Decides conformance of every copy of the error-free transformations (fpa, algorithms, utils; all fast/scale/fix_overflow/default-C option combinations) to catalogued proven algorithms by symbolic dataflow extraction and comparison of normal forms under exact algebra; splitter constants 2^ceil(p/2)+1 at all sites; option plumbing of apmath wrappers. Exactness is the cited theorem, not re-proved; domains not decided.",
      "trusted: catalogue sa/oracles/eft_reference.py with citations; exactness of normalising identities in RN arithmetic; power-of-two splitter variant accepted without citation",
      "symbolic dataflow extraction of straight-line kernels + normal-form equality against a catalogue", "DESIGN.md §3/C10")
claim("C04", "other",
      "Decides soundness of the rewriter's local rules: every reachable row of the three comparison-folding tables on the float lattice; relop column wiring; every rewrite extracted by abstract interpretation of the Rewriter/Expr.rewrite source on a finite family of expression shapes, decided on a finite exact model (untyped floats, numpy-typed float32/float64 with IEEE rounding and constant folding in the modelled dtype, booleans, complex); Expr._is_* answers over operand value classes x knowledge masks. Branch coverage of the Rewriter by the family is measured and reported. Not decided: termination/exceptions for arbitrary DAGs, folding in numpy dtypes, shapes outside the family.",
      "trusted: sa/absint.py interpreter, sa/exprsem.py semantics, lattice oracle; 2 known findings (upcast(downcast), divide by infinite constant)",
      "abstract interpretation of the rule source + finite-model checking of extracted rewrites; literal-table audit", "DESIGN.md §3/C04")
claim("C08", "other",
      "Decides, for every kind with a NumPy template and every tuple of operand dtypes over float16/32/64, complex64/128, bool (all mixes, both tiers), that the static type obtained by abstract interpretation of Expr.get_type/typesystem.Type equals the dtype NumPy's promotion rules give the parsed template; that constants are cast unconditionally to the static type of their like; that debug assertions are wired to the same expression's type. Value-dependent dtypes are not decided.",
      "trusted: NumPy promotion oracle (NEP 50 on numpy scalars) in rules/C08.py, sa/absint.py; sub-expressions compose by induction over operand types",
      "abstract interpretation of the typing rules + table comparison with a promotion oracle", "DESIGN.md §3/C08")
claim("C03", "proof",
      "Proves each listed symmetry / cross-function identity for all inputs at once as equality of signed normal forms of the expanded expression DAGs (complex sub-operations expanded by the package's own definitions): rotation identities under no assumption but non-NaN inputs and the property's own case split; conjugation, oddness, evenness for non-zero, non-NaN components. Quick: complex128/float64; thorough adds complex64/float32, untyped signatures and context parameters.",
      "trusted: package tracer/expansion as front end; exactness of the sign algebra in IEEE RN arithmetic; sign symmetry of native atan2/sin/cos; not decided: zero components for conjugation/oddness, sign of exactly cancelling sums",
      "normal-form equality (exact sign algebra) over the expression IR obtained through the package's tracer", "DESIGN.md §3/C03")
claim("C12", "other",
      "Partial: exact-sum conservation of the functional (select-based) renormalize for list lengths 2..5 (thorough: 2..7), fast and safe modes, in every case split, by interpreting the traced expression DAG in an affine-equality domain (recognised 2Sum/Fast2Sum pairs are exact, other rounded operations are fresh atoms, `e == 0` adds a linear constraint, integer bookkeeping of nztopk evaluated per case); maximal-size tables against the finfo formula; term accounting of add/subtract/multiply/square: their bodies are interpreted on symbolic expansions with two_prod and vecsum summarised by their error-free contracts, and the list handed to renormalize must sum to the exact sum/product/square as a polynomial identity. Not decided: non-overlap/ordering, two-pass claim, the error bound after truncation to `size`, eager renormalize.",
      "trusted: package tracer as front end; 2Sum/Fast2Sum exactness absent overflow; fast mode under its documented magnitude-ordering precondition",
      "abstract interpretation of the expression IR in an affine-equality (Karr-style) domain with case splitting; abstract interpretation of the Python source over exact polynomials", "DESIGN.md §3/C12")
claim("C14", "other",
      "Partial (strong for finite scalars): the scalar branch of utils.diff_ulp is interpreted for every (class, sign) combination of its arguments with the lattice ordinals of |x|, |y| as integer symbols, both flush modes and both equal_nan modes, three formats; on every feasible path the result equals |pos(x) - pos(y)| (pos = signed ordinal, with flushing the documented collapse map), non-finite pairs give 0 or 2**bits: this is the integer distance on the float lattice (zero iff equal with +-0 identified, symmetry, k-th neighbour at distance k, chain additivity across zero and binades). utils.ulp is interpreted once per (format, sign, binade): spacing of the binade for every finite float, smallest subnormal at 0, inf/nan. Complex distance is max over paired components; sequence branches pair positionally and forward options.",
      "trusted: the integer view of |x| numbers the float lattice monotonically without gaps (IEEE-754); not decided: array broadcasting beyond positional pairing",
      "abstract interpretation of the function's AST in a path-sensitive linear-inequality domain (case split per class/sign, Fourier-Motzkin entailment) and per-binade abstract values", "DESIGN.md §3/C14")
claim("C02", "other",
      "Partial (necessary conditions of the ULP clause, decided for every float of float32 and float64, not a sample): the expanded expression DAG of each real algorithm (asin, acos, asinh, acosh, absolute, square, hypot) is interpreted over floating-point intervals with an adaptive partition of the whole float line (plane for hypot); on every box inside the domain the result contains no NaN and lies within a relative bound (2**-8 quick, 2**-11 thorough; hypot 2**-3 / 2**-5) of the true function's range over the box, overflow accepted exactly where the true value overflows; outside the domain the result is NaN only; exact limits at +-0, +-inf and domain ends. The 4/5-ULP bounds and the 3-ULP rate are not decided.",
      "trusted: numpy IEEE arithmetic for interval end points, numpy long-double reference functions, library functions assumed within 4 ulp; not decided: accuracy below the stated relative bound",
      "abstract interpretation of the expression IR over floating-point intervals with adaptive input partitioning (boxes degenerate to points give exact witnesses)", "DESIGN.md §3/C02")
for p, why in dict(
    C01="bounds ULP error of libm-based formulas over all complex inputs: a numeric quantity no static argument in reach can bound",
).items():
    na(p, why)
