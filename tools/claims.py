# executed by gen_manifest.py
claim("C05", "other",
      "Decides structural necessary conditions of C05: every python/numpy/cpp template parses in its language, uses exactly its operands, computes its kind (operator identity and operand order against an oracle), calls only bound names; named constants/types/literal typing; the generic printer's assign-once-before-use typestate and reference-name registration on every statement path. Does not execute emitted code.",
      "trusted: Python ast, oracle tables in sa/oracles/targets.py, math/numpy namespaces, libstdc++ headers; not decided: bit-equality of execution on inputs",
      "custom AST checker: table evaluation + template parsing + path enumeration/def-use", "DESIGN.md §3/C05")
claim("C06", "other",
      "Decides structural necessary conditions of C06: stablehlo/xla_client operator tables against an op-name oracle (arity, order, identity), StableHLO printer structure (operand loops, comparison direction from kind, bind-once-before-use), constants and their like operand.",
      "trusted: hand-authored StableHLO/CHLO/XLA name oracle (not checkable offline); not decided: parse-back isomorphism for arbitrary graphs",
      "custom AST checker: table evaluation + path enumeration over the printers", "DESIGN.md §3/C06")
claim("C18", "other",
      "Decides on every statement path of the context manager: restore-on-exit, save-before-set, read-modify-write locality, mask bits vs MXCSR layout (symbolic per-path bit sets), reader/writer agreement, machine-code blob slots.",
      "trusted: MXCSR layout and instruction encodings from the Intel SDM; not decided: hardware behaviour, threads",
      "typestate / path enumeration + def-use + constant evaluation of masks and byte blobs", "DESIGN.md §3/C18")
claim("C07", "other",
      "Decides structural necessary conditions of sound hash-consing: registration key injective in kind, operands (in order), constant value encoding incl. sign of zero, value type and like key; Expr.__new__ exits only through registration; one table writer on the miss path, none on the hit path; Type hash/eq consistency.",
      "trusted: Python tuple hash/eq semantics; not decided: cross-context or concurrent use",
      "custom AST checker + path enumeration over Expr.__new__/_register_expression", "DESIGN.md §3/C07")
claim("C09", "other",
      "Decides absence of the constructs that make generated text depend on hash seed or process history: iteration/pick over set-typed values (package-wide set/dict-of-set inference) with an order-sensitive consumer; run-time mutated module/class/default-argument objects flowing (def-use taint) into expression/name constructors; id()/hash() orderings.",
      "trusted: syntactic set-type inference (sources listed in evidence); not decided: equality of generated text across runs",
      "dataflow/taint analysis over the AST (set-type inference, global-mutable-state to sink)", "DESIGN.md §3/C09")
claim("C11", "other",
      "Thin: constants of is_power_of_two / is_one_or_three_times_power_of_two / next() are constant-evaluated at every definition site (Python precedence included), compared with the documented formulas and IEEE precisions; kernel shape L=P*x, R=Q*x, D=L-R. ULP bounds of 3Sum/4Sum/dot2/FMA are not decided.",
      "trusted: formulas from Graillat-Muller; only the named constants are decided",
      "constant evaluation of table/constant expressions over the AST", "DESIGN.md §3/C11")
claim("C13", "other",
      "Partial: (a) every literal format table keyed by numpy.float16/32/64 in utils.py and the mpmath backend's precision/exponent tables are checked against IEEE-754 binary16/32/64 and each other; (b) float2fraction's decoding of the IEEE fields is proved exact for every finite bit pattern of every format by symbolic power-of-two algebra per value class (zero, subnormal, normal with negative / non-negative exponent, both signs); (c) float2mpf's man*2**exp bookkeeping; (d) expansion/float conversions keep the target dtype. mpmath's own arithmetic and fraction2float's rounding are not decided.",
      "trusted: IEEE-754 parameters, numpy's integer view of the bit pattern, Python big-integer arithmetic; not decided: rounding in the inverse direction",
      "constant evaluation of literal tables plus exact symbolic algebra over sums of monomials times 2**(affine exponent), per branch of the AST", "DESIGN.md §3/C13")
claim("C15", "other",
      "Partial: sentinel (UNSPECIFIED) resolution yields the caller's value or the default and never the sentinel; no possibly-unspecified option reaches a truth test or attribute; extra-precision options are applied by backend_context and all backend evaluations run inside it; mpf2float's tables and flush-keyed threshold. Rounding of values is not decided.",
      "trusted: IEEE-754 parameters; not decided: numeric rounding behaviour of mpf2float",
      "custom AST checker: conditional-expression shapes, dominance of resolution over truth tests, with-block containment", "DESIGN.md §3/C15")
claim("C16", "other",
      "Partial: on every returning statement path of each polynomial evaluator the coefficient indices read, iterated or delegated (intervals affine in the length) partition [0, len) exactly; exponent bookkeeping of fast_exponent_by_squaring and of the split recombination; agreement of the duplicated implementations.",
      "trusted: induction hypothesis for recursive/sibling calls on slices; not decided: the rest of the arithmetic, multiply/add/divmod/taylorat algebra",
      "path enumeration + symbolic (affine) index-interval coverage", "DESIGN.md §3/C16")
claim("C17", "other",
      "Thin: the active double-word ln2 constants (branch chosen by constant-evaluating the if-chain) satisfy hi+lo ~ ln2 to half an ulp of lo and leave enough trailing zeros for exact k*hi, in exact rational arithmetic per format; scalar constants correctly rounded; reduction formula matched. Reconstruction bounds on inputs are not decided.",
      "trusted: ln2 to 100 digits; struct rounding of literals",
      "constant evaluation + exact rational arithmetic on literals", "DESIGN.md §3/C17")
claim("C19", "other",
      "Partial: interval analysis of the sample count at every `// (num-1)` divisor and negative index of real_samples from dominating facts; product generators forward every shared option and axis k's size/bounds to the k-th inner call. Properties of returned arrays are not decided.",
      "trusted: dominance in structured code; 4 known findings (unguarded divisors/index) are listed in known_findings.json",
      "interval analysis over dominating conditions + call-site argument forwarding check", "DESIGN.md §3/C19")
claim("C10", "other",
      "Decides conformance of every copy of the error-free transformations (fpa, algorithms, utils; all fast/scale/fix_overflow/default-C option combinations) to catalogued proven algorithms by symbolic dataflow extraction and comparison of normal forms under exact algebra; splitter constants 2^ceil(p/2)+1 at all sites; option plumbing of apmath wrappers. Exactness is the cited theorem, not re-proved; domains not decided.",
      "trusted: catalogue sa/oracles/eft_reference.py with citations; exactness of normalising identities in RN arithmetic; power-of-two splitter variant accepted without citation",
      "symbolic dataflow extraction of straight-line kernels + normal-form equality against a catalogue", "DESIGN.md §3/C10")
claim("C04", "other",
      "Decides soundness of the rewriter's local rules: every reachable row of the three comparison-folding tables on the float lattice; relop column wiring; every rewrite extracted by abstract interpretation of the Rewriter/Expr.rewrite source on a finite family of expression shapes, decided on a finite exact model (untyped floats, numpy-typed float32/float64 with IEEE rounding and constant folding in the modelled dtype, booleans, complex); Expr._is_* answers over operand value classes x knowledge masks. Branch coverage of the Rewriter by the family is measured and reported. Not decided: termination/exceptions for arbitrary DAGs, folding in numpy dtypes, shapes outside the family.",
      "trusted: sa/absint.py interpreter, sa/exprsem.py semantics, lattice oracle; 2 known findings (upcast(downcast), divide by infinite constant)",
      "abstract interpretation of the rule source + finite-model checking of extracted rewrites; literal-table audit", "DESIGN.md §3/C04")
claim("C08", "other",
      "Decides, for every kind with a NumPy template and every tuple of operand dtypes over float16/32/64, complex64/128, bool (all mixes, both tiers), that the static type obtained by abstract interpretation of Expr.get_type/typesystem.Type equals the dtype NumPy's promotion rules give the parsed template; that constants are cast unconditionally to the static type of their like; that debug assertions are wired to the same expression's type. Value-dependent dtypes are not decided.",
      "trusted: NumPy promotion oracle (NEP 50 on numpy scalars) in rules/C08.py, sa/absint.py; sub-expressions compose by induction over operand types",
      "abstract interpretation of the typing rules + table comparison with a promotion oracle", "DESIGN.md §3/C08")
claim("C03", "proof",
      "Proves each listed symmetry / cross-function identity for all inputs at once as equality of signed normal forms of the expanded expression DAGs (complex sub-operations expanded by the package's own definitions): rotation identities under no assumption but non-NaN inputs and the property's own case split; conjugation, oddness, evenness for non-zero, non-NaN components. Quick: complex128/float64; thorough adds complex64/float32, untyped signatures and context parameters.",
      "trusted: package tracer/expansion as front end; exactness of the sign algebra in IEEE RN arithmetic; sign symmetry of native atan2/sin/cos; not decided: zero components for conjugation/oddness, sign of exactly cancelling sums",
      "normal-form equality (exact sign algebra) over the expression IR obtained through the package's tracer", "DESIGN.md §3/C03")
claim("C12", "other",
      "Partial: exact-sum conservation of the functional (select-based) renormalize for list lengths 2..5 (thorough: 2..7), fast and safe modes, in every case split, by interpreting the traced expression DAG in an affine-equality domain (recognised 2Sum/Fast2Sum pairs are exact, other rounded operations are fresh atoms, `e == 0` adds a linear constraint, integer bookkeeping of nztopk evaluated per case); maximal-size tables against the finfo formula; term accounting of add/subtract/multiply/square: their bodies are interpreted on symbolic expansions with two_prod and vecsum summarised by their error-free contracts, and the list handed to renormalize must sum to the exact sum/product/square as a polynomial identity. Not decided: non-overlap/ordering, two-pass claim, the error bound after truncation to `size`, eager renormalize.",
      "trusted: package tracer as front end; 2Sum/Fast2Sum exactness absent overflow; fast mode under its documented magnitude-ordering precondition",
      "abstract interpretation of the expression IR in an affine-equality (Karr-style) domain with case splitting; abstract interpretation of the Python source over exact polynomials", "DESIGN.md §3/C12")
claim("C14", "other",
      "Thin: structural clauses of the ULP metric decided on the source of utils.diff_ulp/ulp: the scalar branch is invariant under exchanging its arguments (canonical form modulo commutativity and the |a-b| idiom); complex distance is max over paired components; sequence branches pair positionally and forward both options; signs are taken before abs() with sign(0)=0 and integer views of absolute values; out-of-range marker 2**bits; ulp(x)=ldexp(1, frexp exponent + negep). That the value equals the number of representable steps, chain additivity and the flush remapping are numeric and not decided.",
      "only the named structural clauses are decided; same-type arguments assumed (x.dtype and y.dtype identified)",
      "AST canonicalisation and swap-invariance check; call-site argument pairing", "DESIGN.md §3/C14")
claim("C02", "other",
      "Partial (necessary conditions of the ULP clause, decided for every float of float32 and float64, not a sample): the expanded expression DAG of each real algorithm (asin, acos, asinh, acosh, absolute, square, hypot) is interpreted over floating-point intervals with an adaptive partition of the whole float line (plane for hypot); on every box inside the domain the result contains no NaN and lies within a relative bound (2**-8 quick, 2**-11 thorough; hypot 2**-3 / 2**-5) of the true function's range over the box, overflow accepted exactly where the true value overflows; outside the domain the result is NaN only; exact limits at +-0, +-inf and domain ends. The 4/5-ULP bounds and the 3-ULP rate are not decided.",
      "trusted: numpy IEEE arithmetic for interval end points, numpy long-double reference functions, library functions assumed within 4 ulp; not decided: accuracy below the stated relative bound",
      "abstract interpretation of the expression IR over floating-point intervals with adaptive input partitioning (boxes degenerate to points give exact witnesses)", "DESIGN.md §3/C02")
for p, why in dict(
    C01="bounds ULP error of libm-based formulas over all complex inputs: a numeric quantity no static argument in reach can bound",
).items():
    na(p, why)
