# executed by gen_manifest.py
claim("C05", "other",
      "Decides structural necessary conditions of C05: every python/numpy/cpp template parses in its language, uses exactly its operands, computes its kind (operator identity and operand order against an oracle), calls only bound names; named constants/types/literal typing; the generic printer's assign-once-before-use typestate and reference-name registration on every statement path. Does not execute emitted code.",
      "trusted: Python ast, oracle tables in sa/oracles/targets.py, math/numpy namespaces, libstdc++ headers; not decided: bit-equality of execution on inputs",
      "custom AST checker: table evaluation + template parsing + path enumeration/def-use", "DESIGN.md §3/C05")
claim("C06", "other",
      "Decides structural necessary conditions of C06: stablehlo/xla_client operator tables against an op-name oracle (arity, order, identity), StableHLO printer structure (operand loops, comparison direction from kind, bind-once-before-use), constants and their like operand.",
      "trusted: hand-authored StableHLO/CHLO/XLA name oracle (not checkable offline); not decided: parse-back isomorphism for arbitrary graphs",
      "custom AST checker: table evaluation + path enumeration over the printers", "DESIGN.md §3/C06")
claim("C18", "other",
      "Decides on every statement path of the context manager: restore-on-exit, save-before-set, read-modify-write locality, mask bits vs MXCSR layout (symbolic per-path bit sets), reader/writer agreement, machine-code blob slots.",
      "trusted: MXCSR layout and instruction encodings from the Intel SDM; not decided: hardware behaviour, threads",
      "typestate / path enumeration + def-use + constant evaluation of masks and byte blobs", "DESIGN.md §3/C18")
for p, why in dict(
    C01="bounds ULP error of libm-based formulas over all complex inputs: a numeric quantity no static argument in reach can bound",
    C02="same on the real line; float32 exhaustion is execution, not static analysis",
    C03="(not built yet)", C04="(not built yet)", C07="(not built yet)", C08="(not built yet)", C09="(not built yet)",
    C10="(not built yet)", C11="(not built yet)", C12="(not built yet)", C13="(not built yet)",
    C14="metric laws of integer arithmetic on runtime bit patterns; nothing structural beyond a width table",
    C15="(not built yet)", C16="(not built yet)", C17="(not built yet)", C19="(not built yet)",
).items():
    na(p, why)
