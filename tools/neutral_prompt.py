#!/usr/bin/env python3
"""Print the prompt for a *neutral refactoring* sub-agent: files + scratch worktree; it must NOT change behaviour."""
import json, sys
tag, wt, files, props = sys.argv[1], sys.argv[2], sys.argv[3], sys.argv[4]
P = {json.loads(l)['id']: json.loads(l) for l in open('/verif/properties.jsonl')}
ptxt = "\n".join(f"- {pid}: {P[pid]['title']} -- {P[pid]['statement']}" for pid in props.split(","))
print(f"""You are helping to evaluate a verification effort for the Python package pearu/functional_algorithms (a tracer / expression IR / rewriter / multi-target code generator for math functions). Static checkers have been written that must stay SILENT on any change that preserves behaviour. Your job: produce FIVE independent, realistic, behaviour-preserving refactorings of the package source, the kind a maintainer does while tidying code, each as its own patch.

Your scratch worktree (a git worktree, work ONLY inside it): {wt}
Do not read or write anything under /repo or /verif. Do not edit test files. Python: /venv/bin/python (run with the worktree as current directory so `import functional_algorithms` picks up your copy).

Focus on these files: {files}
They carry these semantic properties (your refactorings must keep ALL of them true, bit for bit):
{ptxt}

Each refactoring should touch code that matters for these properties (the functions that implement them), be 3-30 lines, and be of a DIFFERENT kind from the others. Kinds that are wanted: renaming local variables; introducing or inlining an intermediate variable; reordering independent statements; replacing a condition by an equivalent one (x >= y  <->  not (x < y) for non-NaN operands only where that is really equivalent; swapping select/if arms with a negated test); extracting a small helper function or inlining one; replacing a loop by a comprehension or vice versa; commuting operands of exactly commutative IEEE operations (a+b, a*b; NOT re-associating sums/products, that changes rounding); using an equivalent library call or constant spelling (2**k vs 1 << k, -fi.negep vs fi.nmant + 1); restructuring an if/elif chain without changing which branch runs; changing a table's literal layout. Do NOT change numeric behaviour, emitted text of generated code, public function names/parameter names, or anything the tests or users can observe.

For each refactoring k = 1..5:
- start from the unmodified tree (`git checkout -- .`), make the edit, save it as {wt}/neutral_k.diff with `git diff > neutral_k.diff`;
- convince yourself it is behaviour preserving: reason about it, and run the test files closest to the change (e.g. `/venv/bin/python -m pytest -q -p no:cacheprovider --timeout=900 -n 4 functional_algorithms/tests/test_<...>.py`); on the unmodified tree exactly these 3 tests fail: test_functional_algorithms.py::test_myhypot_xla_client, ::test_myhypot_cpp, ::test_safe_min_xla_client;
- where cheap, add a differential check to {wt}/neutral_check.py: a script that imports the package from the current directory and prints a digest (e.g. sha1 of generated code for a few graphs in several targets, or of numeric outputs on a few hundred inputs) so that running it on the unmodified tree and on each patched tree gives identical output; run it both ways and report.
At the end leave the worktree clean (`git checkout -- .`) with the five neutral_k.diff files and neutral_check.py present (untracked).

Reply with, per refactoring: the file/function, one sentence on what was changed and why it cannot change behaviour, and what you ran. Be honest about any doubt: a refactoring you are not sure about is worse than four good ones.""")
