#!/bin/sh
# confirm_list.sh JOBS <seed-dir>... : confirm the named seeds one after the other (skips finished ones)
JOBS="$1"; shift
for sd in "$@"; do
  sd="${sd%/}"
  [ -f "$sd/patch.diff" ] || continue
  if [ -f "$sd/confirm.log" ] && grep -q "^SUMMARY" "$sd/confirm.log" && grep -q "^stable_pass" "$sd/confirm.log"; then continue; fi
  JOBS="$JOBS" /verif/tools/confirm_seed.sh "$sd" > /dev/null 2>&1
done
echo LISTDONE
