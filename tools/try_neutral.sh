#!/bin/sh
# try_neutral.sh <diff> <prop> [<prop> ...]: apply a behaviour-preserving patch to /repo, run the checks, revert.  All must exit 0.
D="$1"; shift
git -C /repo apply "$D" || { echo "PATCH DOES NOT APPLY: $D"; exit 3; }
RC=0
for P in "$@"; do
  VERIF_NO_EVIDENCE=1 /verif/check "$P" --no-selftest > /tmp/neutral_out_$P.txt 2>&1; R=$?
  if [ $R -ne 0 ]; then echo "  $P rc=$R on $(basename $D)"; grep -A2 "VIOLATED\|ANALYSIS-ERROR" /tmp/neutral_out_$P.txt | head -8 | cut -c1-300; RC=1; fi
done
git -C /repo checkout -- .
exit $RC
