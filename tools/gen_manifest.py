#!/usr/bin/env python3
"""Generate MANIFEST.json from the per-property claim table below (single source of truth)."""
import json, os
HERE = os.path.dirname(os.path.dirname(os.path.abspath(__file__)))

CLAIMS = {}
NA = {}

def claim(pid, category, text, note, technique, design_ref):
    CLAIMS[pid] = dict(category=category, text=text, note=note, technique=technique, design_ref=design_ref)

def na(pid, reason):
    NA[pid] = reason

exec(open(os.path.join(HERE, "tools", "claims.py")).read())

checks = []
for pid in sorted(CLAIMS):
    c = CLAIMS[pid]
    checks.append(dict(
        property_id=pid,
        quick_cmd=f"./check {pid} --tier quick",
        thorough_cmd=f"./check {pid} --tier thorough",
        evidence_file=f"/verif/evidence/{pid}.json",
        replay_cmd_template=f"./check {pid} --replay {{path}}",
        engine="sa" if pid not in ("C03", "C12") else "ir",
        level_claimed=dict(category=c["category"], text=c["text"], design_ref=c["design_ref"]),
        level_note=c["note"],
        technique=c["technique"],
    ))
m = dict(
    version=1,
    setup_cmd="true",
    hooks=dict(
        guard="FA_VERIF_HOOKS",
        enable="no hooks: the checks read /repo's source files and never need instrumentation (variable is unused)",
        baseline_off_cmd="cd /repo && /venv/bin/python -m pytest -ra -q -p no:cacheprovider --timeout=900 --continue-on-collection-errors",
        source_commits=[],
        add_only=True,
    ),
    engines=[
        dict(name="sa", path="/verif/sa", serves_properties=sorted(p for p in CLAIMS if p not in ("C03", "C12")),
             kind_free_text="Engine A: ast-based source model, constant/table evaluator, structured path enumeration, def-use, template parsers, oracle tables"),
        dict(name="ir", path="/verif/ir", serves_properties=sorted(p for p in CLAIMS if p in ("C03", "C12")),
             kind_free_text="Engine B: package tracer as front end, own hash-consed term normaliser over the expression IR (no evaluation)"),
    ],
    checks=checks,
    notes="Static analysis only. Every check reads /repo's working tree afresh, prints the rule instances it analysed, exits 2 (ANALYSIS-ERROR) when an anchor or shape is not recognised. known_findings.json lists recorded/fixed defects.",
    not_applicable=[dict(property_id=p, reason=NA[p]) for p in sorted(NA)],
)
json.dump(m, open(os.path.join(HERE, "MANIFEST.json"), "w"), indent=1)
print("claimed", sorted(CLAIMS), "n/a", sorted(NA))
