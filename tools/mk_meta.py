#!/usr/bin/env python3
"""mk_meta.py <seed-dir> <prop> <round> <needs> <detected_by> <first_attempt>: write the meta.json of a stored seed."""
import json, sys, os
sd, prop, rnd, needs, det, first = sys.argv[1:7]
sd = os.path.abspath(sd)
m = {
    "property": prop, "breaks": prop, "needs_to_manifest": needs,
    "produced_by": f"fresh sub-agent (round {rnd}) given only the property text and a scratch worktree",
    "confirmed_by_me": {"done": False, "what_i_ran": f"tools/confirm_seed.sh {sd}", "result": "queued"},
    "detected_by": det, "first_attempt": first, "how_to_replay": f"tools/try_seed.sh {sd} {prop}",
}
json.dump(m, open(os.path.join(sd, "meta.json"), "w"), indent=1)
