"""Immutable term import of an expanded expression DAG + signed normal form (see DESIGN.md §3/C03).

Terms are hash-consed tuples.  Complex-valued nodes are imported as pairs (re, im) of real terms.
`Norm(assume).nf(t)` returns (sign, core).  All rewriting identities are exact in IEEE-754
round-to-nearest arithmetic, except that the sign of an exactly cancelling sum is not tracked
(recorded as an assumption by the caller).

Assumption levels
  exact     : no facts about input symbols; conditions are only normalised structurally
  nonzero   : every input symbol s is non-zero and not NaN:  s<0 == s<=0 == not(s>0) == not(s>=0), s==0 is False
  facts     : explicit truth values for normalised atoms (e.g. lt(y, 0) is False) on top of either level
"""

from __future__ import annotations

from sa.core import AnalysisError


class Unmodelled(AnalysisError):
    pass


_TABLE = {}


class Term(tuple):
    """Hash-consed term: identity is structural identity, so hashing and equality are O(1).

    `_digest` is a structural digest (independent of construction order) used for deterministic sorting."""

    def __hash__(self):
        return id(self)

    def __eq__(self, other):
        return self is other

    def __ne__(self, other):
        return self is not other


def _dig(x):
    if isinstance(x, Term):
        return x._digest
    if isinstance(x, tuple):
        return "(" + ",".join(_dig(e) for e in x) + ")"
    return repr(x)


def T(*parts):
    key = tuple((("#", id(p)) if isinstance(p, Term) else p) for p in parts)
    t = _TABLE.get(key)
    if t is None:
        import hashlib

        t = Term(parts)
        t._digest = hashlib.sha1("|".join(_dig(p) for p in parts).encode()).hexdigest()[:20]
        _TABLE[key] = t
    return t


def sym(name):
    return T("sym", name)


def const(v):
    return T("const", v)


# --------------------------------------------------------------------------- import


def _constval(v):
    import numbers

    if isinstance(v, str):
        return ("named", v)
    if isinstance(v, bool):
        return ("bool", v)
    if isinstance(v, numbers.Integral):
        return ("num", float(int(v)).hex()) if abs(int(v)) < 2 ** 53 else ("int", int(v))
    if isinstance(v, numbers.Real):
        f = float(v)
        if f != f:
            return ("named", "nan")
        return ("num", f.hex())
    if isinstance(v, numbers.Complex):
        return ("cnum", float(v.real).hex(), float(v.imag).hex())
    raise Unmodelled(f"constant of type {type(v).__name__}")


class Importer:
    def __init__(self, Expr, argmap):
        """argmap: symbol name -> term (real) or (re, im) pair for complex arguments."""
        self.Expr = Expr
        self.argmap = argmap
        self.memo = {}
        self.kinds = {}

    def imp(self, e):
        k = id(e)
        if k in self.memo:
            return self.memo[k]
        r = self._imp(e)
        self.memo[k] = r
        return r

    def cplx(self, e):
        v = self.imp(e)
        if not (isinstance(v, tuple) and len(v) == 3 and v[0] == "PAIR"):
            raise Unmodelled(f"{e.kind}: real value where a complex one was expected")
        return v

    def real(self, e):
        v = self.imp(e)
        if isinstance(v, tuple) and len(v) == 3 and v[0] == "PAIR":
            raise Unmodelled(f"{e.kind}: complex value used as a real operand")
        return v

    def _imp(self, e):
        kind = e.kind
        self.kinds[kind] = self.kinds.get(kind, 0) + 1
        ops = e.operands
        if kind == "symbol":
            name = ops[0]
            if name not in self.argmap:
                raise Unmodelled(f"free symbol {name}")
            return self.argmap[name]
        if kind == "constant":
            v = ops[0]
            if isinstance(v, self.Expr):
                raise Unmodelled("constant holding an alternative-context expression")
            cv = _constval(v)
            if cv[0] == "cnum":
                return ("PAIR", const(("num", cv[1])), const(("num", cv[2])))
            return const(cv)
        if kind == "complex":
            return ("PAIR", self.real(ops[0]), self.real(ops[1]))
        if kind == "real":
            return self.cplx(ops[0])[1]
        if kind == "imag":
            return self.cplx(ops[0])[2]
        cplx_ops = [o for o in ops if isinstance(o, self.Expr) and self._is_pair(o)]
        if cplx_ops:
            if kind == "select":
                c = self.real(ops[0])
                a, b = self.cplx(ops[1]), self.cplx(ops[2])
                return ("PAIR", T("select", c, a[1], b[1]), T("select", c, a[2], b[2]))
            if kind == "negative":
                a = self.cplx(ops[0])
                return ("PAIR", T("negative", a[1]), T("negative", a[2]))
            if kind == "conjugate":
                a = self.cplx(ops[0])
                return ("PAIR", a[1], T("negative", a[2]))
            if kind in ("add", "subtract") and len(cplx_ops) == 2:
                a, b = self.cplx(ops[0]), self.cplx(ops[1])
                return ("PAIR", T(kind, a[1], b[1]), T(kind, a[2], b[2]))
            raise Unmodelled(f"kind `{kind}` on complex operands survived expansion")
        return T(kind, *[self.real(o) for o in ops])

    def _is_pair(self, e):
        v = self.imp(e)
        return isinstance(v, tuple) and len(v) == 3 and v[0] == "PAIR"


# --------------------------------------------------------------------------- substitution


def subst(t, mapping, memo=None):
    memo = {} if memo is None else memo
    if t in memo:
        return memo[t]
    if t[0] == "sym":
        r = mapping.get(t[1], t)
    elif t[0] == "const":
        r = t
    else:
        r = T(t[0], *[subst(x, mapping, memo) for x in t[1:]])
    memo[t] = r
    return r


# --------------------------------------------------------------------------- normal form

CMP = {"lt", "le", "gt", "ge", "eq", "ne"}
ODD1 = {"sin", "tan", "atan", "tanh", "sinh", "sign", "expm1_odd_never"} - {"expm1_odd_never"}
EVEN1 = {"cos", "cosh", "absolute", "square", "is_finite"}
MODELLED = {"add", "subtract", "multiply", "divide", "negative", "positive", "absolute", "sqrt", "square", "log", "log1p", "log2", "log10", "exp", "expm1",
            "sin", "cos", "tan", "atan", "tanh", "sinh", "cosh", "atan2", "maximum", "minimum", "sign", "floor", "ceil", "select", "is_finite", "copysign",
            "logical_and", "logical_or", "logical_not", "logical_xor"} | CMP


def skey(x):
    return _dig(x)


class Norm:
    def __init__(self, inputs, level="exact", facts=None):
        self.inputs = set(inputs)
        self.level = level
        self.facts = dict(facts or {})
        self.memo = {}
        self.cmemo = {}
        self.unmodelled = set()

    # value normal form: (sign, core)
    def nf(self, t):
        r = self.memo.get(t)
        if r is None:
            r = self._nf(t)
            self.memo[t] = r
        return r

    def _nf(self, t):
        k = t[0]
        if k == "sym":
            return (1, t)
        if k == "const":
            v = t[1]
            if v[0] == "num":
                f = float.fromhex(v[1])
                if f < 0 or (f == 0 and str(f).startswith("-")):
                    return (-1, const(("num", (-f).hex())))
                return (1, t)
            if v[0] == "named" and v[1] == "neginf":
                return (-1, const(("named", "posinf")))
            return (1, t)
        if k not in MODELLED:
            self.unmodelled.add(k)
            return (1, T(k, *[self._pack(self.nf(x)) for x in t[1:]]))
        if k == "negative":
            s, c = self.nf(t[1])
            return (-s, c)
        if k == "positive":
            return self.nf(t[1])
        if k in EVEN1:
            s, c = self.nf(t[1])
            return (1, T(k, c))
        if k in ODD1:
            s, c = self.nf(t[1])
            return (s, T(k, c))
        if k in ("add", "subtract"):
            sa, a = self.nf(t[1])
            sb, b = self.nf(t[2])
            if k == "subtract":
                sb = -sb
            items = sorted([(sa, a), (sb, b)], key=lambda it: skey(it[1]))
            outer = 1
            if items[0][0] < 0:
                outer = -1
                items = [(-s, c) for s, c in items]
            return (outer, T("sum", (items[0][0], items[0][1]), (items[1][0], items[1][1])))
        if k == "multiply":
            sa, a = self.nf(t[1])
            sb, b = self.nf(t[2])
            x, y = sorted([a, b], key=skey)
            return (sa * sb, T("prod", x, y))
        if k == "divide":
            sa, a = self.nf(t[1])
            sb, b = self.nf(t[2])
            return (sa * sb, T("div", a, b))
        if k == "atan2":
            sa, a = self.nf(t[1])
            return (sa, T("atan2", a, self._pack(self.nf(t[2]))))
        if k == "copysign":
            sa, a = self.nf(t[1])
            return (1, T("copysign", a, self._pack(self.nf(t[2]))))
        if k in ("maximum", "minimum"):
            a, b = self.nf(t[1]), self.nf(t[2])
            if a[0] < 0 and b[0] < 0:
                other = "minimum" if k == "maximum" else "maximum"
                x, y = sorted([a[1], b[1]], key=skey)
                return (-1, T(other, (1, x), (1, y)))
            x, y = sorted([a, b], key=skey)
            return (1, T(k, x, y))
        if k == "select":
            c = self.cond(t[1])
            if c == ("true",):
                return self.nf(t[2])
            if c == ("false",):
                return self.nf(t[3])
            a, b = self.nf(t[2]), self.nf(t[3])
            if c[0] == "not":
                c = c[1]
                a, b = b, a
            if a == b:
                return a
            if a[0] < 0:
                return (-1, T("select", c, (1, a[1]), (-b[0], b[1])))
            return (1, T("select", c, a, b))
        if k in CMP or k in ("logical_and", "logical_or", "logical_not", "logical_xor"):
            return (1, T("cond", self.cond(t)))
        # unary functions without symmetry: keep the signed argument
        return (1, T(k, *[self._pack(self.nf(x)) for x in t[1:]]))

    def _pack(self, sc):
        return sc

    # condition normal form
    def cond(self, t):
        r = self.cmemo.get(t)
        if r is None:
            r = self._cond(t)
            if r in self.facts:
                r = ("true",) if self.facts[r] else ("false",)
            elif r[0] == "not" and r[1] in self.facts:
                r = ("false",) if self.facts[r[1]] else ("true",)
            self.cmemo[t] = r
        return r

    def neg(self, c):
        if c == ("true",):
            return ("false",)
        if c == ("false",):
            return ("true",)
        if c[0] == "not":
            return c[1]
        return ("not", c)

    def _cond(self, t):
        k = t[0]
        if k == "const":
            if t[1][0] == "bool":
                return ("true",) if t[1][1] else ("false",)
            raise Unmodelled(f"non-boolean constant as condition: {t}")
        if k == "logical_not":
            return self.neg(self.cond(t[1]))
        if k in ("logical_and", "logical_or"):
            a, b = self.cond(t[1]), self.cond(t[2])
            tv, fv = ("true",), ("false",)
            if k == "logical_and":
                if a == fv or b == fv:
                    return fv
                if a == tv:
                    return b
                if b == tv:
                    return a
            else:
                if a == tv or b == tv:
                    return tv
                if a == fv:
                    return b
                if b == fv:
                    return a
            if a == b:
                return a
            items = []
            for c in (a, b):
                if c[0] == k:
                    items.extend(c[1:])
                else:
                    items.append(c)
            uniq = sorted(set(items), key=skey)
            # x and not x
            for c in uniq:
                if self.neg(c) in uniq:
                    return fv if k == "logical_and" else tv
            return (k, *uniq)
        if k == "logical_xor":
            x, y = sorted([self.cond(t[1]), self.cond(t[2])], key=skey)
            return ("xor", x, y)
        if k == "is_finite":
            return ("is_finite", self.nf(t[1])[1])
        if k == "select":
            c = self.cond(t[1])
            a, b = self.cond(t[2]), self.cond(t[3])
            if c == ("true",):
                return a
            if c == ("false",):
                return b
            return ("csel", c, a, b)
        if k in CMP:
            a, b = self.nf(t[1]), self.nf(t[2])
            op = k
            if op in ("gt", "ge"):
                op = {"gt": "lt", "ge": "le"}[op]
                a, b = b, a
            # both sides negative: -A < -B  <=>  B < A
            if a[0] < 0 and b[0] < 0:
                a, b = (1, b[1]), (1, a[1])
            # move signs so that the left side is positive when the right side is a constant/zero:  -A < c  <=>  -c < A
            if op in ("eq", "ne"):
                if a[0] < 0 and self._is_zero(b):
                    a = (1, a[1])
                if b[0] < 0 and self._is_zero(a):
                    b = (1, b[1])
                x, y = sorted([a, b], key=lambda sc: skey(sc[1]))
                if x[0] < 0:
                    # -A == B  <=>  A == -B
                    x, y = (1, x[1]), (-y[0], y[1])
                base = ("eq", x, y)
                atom = self._sign_atom("eq", x, y)
                if atom is not None:
                    base = atom
                return base if op == "eq" else self.neg(base)
            atom = self._sign_atom(op, a, b)
            if atom is not None:
                return atom
            if op == "le" and self._total(a) and self._total(b):
                # inputs are not NaN: a <= b  <=>  not (b < a)  when both sides are bare inputs / numeric constants
                return self.neg(("lt", b, a))
            return (op, a, b)
        if k == "cond":
            return t[1]
        raise Unmodelled(f"condition of kind {k}")

    def _total(self, sc):
        c = sc[1]
        if c[0] == "sym":
            return c[1] in self.inputs
        return c[0] == "const" and c[1][0] == "num"

    def _is_zero(self, sc):
        c = sc[1]
        return c[0] == "const" and c[1][0] == "num" and float.fromhex(c[1][1]) == 0

    def _sign_atom(self, op, a, b):
        """Comparisons of a bare input symbol with zero become sign atoms when the level allows it."""
        if self.level != "nonzero":
            return None
        # identify (symbol, zero) pairs
        def is_sym(sc):
            return sc[1][0] == "sym" and sc[1][1] in self.inputs
        if is_sym(a) and self._is_zero(b):
            s, side = a, "left"
        elif is_sym(b) and self._is_zero(a):
            s, side = b, "right"
        else:
            return None
        pos = ("pos", s[1])  # symbol > 0
        sign = s[0]
        if op == "eq":
            return ("false",)
        # s (op) 0  with s = sign*sym
        if side == "left":
            # sym*sign < 0 or <= 0  (equivalent for non-zero)
            res = self.neg(pos) if sign > 0 else pos
        else:
            # 0 < sign*sym
            res = pos if sign > 0 else self.neg(pos)
        return res
