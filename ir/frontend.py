"""Engine B front end: obtain the expanded expression DAG of an algorithm definition.

The package's own tracer is used the way a C analysis uses the compiler front end: definition code is
*executed to construct* the expression graph (never to evaluate it), and every non-primitive kind is
expanded through the package's definitions (`ctx.call(definition, operands)`, the mechanism of
targets/base.py:modifier_base).  A kind that is native on real operands but has a package definition
for complex operands (log, sqrt, exp, absolute, ...) is expanded when an operand is complex.
The resulting DAG is imported into immutable terms (ir/normal.py); the package's rewriter, printers
and typing are not used on it.
"""

from __future__ import annotations

import importlib
import os
import sys
import warnings

from sa.core import AnalysisError

REAL_PRIMITIVES = {
    "add", "subtract", "multiply", "divide", "negative", "positive", "absolute", "sqrt", "log", "log1p", "log2", "log10", "exp", "expm1",
    "sin", "cos", "tan", "atan2", "maximum", "minimum", "sign", "floor", "ceil", "lt", "le", "gt", "ge", "eq", "ne", "logical_and", "logical_or",
    "logical_not", "logical_xor", "select", "is_finite", "real", "imag", "complex", "copysign", "atan", "tanh", "sinh", "cosh",
}
ALWAYS_STRUCTURAL = {"real", "imag", "complex", "select", "symbol", "constant", "apply", "lt", "le", "gt", "ge", "eq", "ne", "logical_and", "logical_or", "logical_not", "is_finite"}


def load_package(root):
    """Import functional_algorithms from <root>; fail closed if another copy wins."""
    root = os.path.abspath(root)
    if "functional_algorithms" in sys.modules:
        fa = sys.modules["functional_algorithms"]
    else:
        sys.path.insert(0, root)
        with warnings.catch_warnings():
            warnings.simplefilter("ignore")
            try:
                fa = importlib.import_module("functional_algorithms")
            except Exception as e:  # noqa
                raise AnalysisError(f"cannot import functional_algorithms from {root}: {type(e).__name__}: {e}")
    got = os.path.dirname(os.path.dirname(os.path.abspath(fa.__file__)))
    if got != root:
        raise AnalysisError(f"functional_algorithms was imported from {got}, not from the tree under analysis {root}")
    return fa


class Expanded:
    def __init__(self, fa, graph, args, body, stats):
        self.fa, self.graph, self.args, self.body, self.stats = fa, graph, args, body, stats


def expand(fa, func_name, signature, parameters=None, enable_alt=False):
    """Trace algorithms.<func_name> with the given argument type strings and expand to real primitives."""
    algorithms = fa.algorithms
    Expr = fa.expr.Expr
    func = getattr(algorithms, func_name, None)
    if func is None:
        raise AnalysisError(f"anchor vanished: algorithms.{func_name}")
    ctx = fa.Context(paths=[algorithms], parameters=dict(parameters or {}))
    expansions = {}

    def is_complex(e):
        try:
            return bool(e.is_complex)
        except Exception:
            return False

    def modifier(expr):
        kind = expr.kind
        if kind in ("symbol", "constant", "apply"):
            return expr
        cplx = any(isinstance(o, Expr) and is_complex(o) for o in expr.operands)
        if kind in ALWAYS_STRUCTURAL:
            return expr
        if kind in REAL_PRIMITIVES and not cplx:
            return expr
        if kind in ("negative", "add", "subtract", "conjugate") and cplx:
            return expr  # decomposed componentwise by the importer
        definition = None
        for m in ctx._paths:
            definition = getattr(m, kind, None)
            if definition is not None:
                break
        if definition is None:
            raise AnalysisError(f"no definition for kind `{kind}` ({'complex' if cplx else 'real'} operands) in algorithms.py")
        expansions[kind] = expansions.get(kind, 0) + 1
        result = ctx.call(definition, expr.operands)
        if result is expr or result.key == expr.key:
            return expr
        return result.rewrite(modifier, deep_first=True)

    with warnings.catch_warnings():
        warnings.simplefilter("ignore")
        try:
            graph = ctx.trace(func, *signature)
            graph = graph.rewrite(modifier, deep_first=True)
        except AnalysisError:
            raise
        except NotImplementedError as e:
            raise AnalysisError(f"algorithms.{func_name}{signature}: {e}")
    args = graph.operands[1:-1]
    body = graph.operands[-1]
    return Expanded(fa, graph, args, body, dict(expansions=expansions))
